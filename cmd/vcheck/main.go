// vcheck runs one property check: vcheck <id> <quick|thorough> [--replay file]
package main

import (
	"fmt"
	"os"

	"verif/props"
)

func main() {
	if len(os.Args) < 3 {
		fmt.Fprintln(os.Stderr, "usage: vcheck <property> <quick|thorough> | vcheck <property> --replay <file> | vcheck worker ...")
		os.Exit(2)
	}
	id, tier := os.Args[1], os.Args[2]
	if id == "worker" {
		props.Worker(os.Args[2:])
		return
	}
	if tier == "--replay" {
		if len(os.Args) < 4 {
			fmt.Fprintln(os.Stderr, "--replay needs a file")
			os.Exit(2)
		}
		props.Replay(id, os.Args[3])
		return
	}
	if tier != "quick" && tier != "thorough" {
		fmt.Fprintln(os.Stderr, "tier must be quick or thorough")
		os.Exit(2)
	}
	f, ok := props.Registry[id]
	if !ok {
		fmt.Fprintln(os.Stderr, "unknown property", id)
		os.Exit(2)
	}
	f(tier)
}
