package main

import (
	"fmt"
	"golang.org/x/tools/go/packages"
)

func main() {
	cfg := &packages.Config{Mode: packages.NeedName | packages.NeedFiles | packages.NeedSyntax | packages.NeedTypes | packages.NeedTypesInfo | packages.NeedDeps | packages.NeedImports | packages.NeedModule, Dir: "/repo"}
	pkgs, err := packages.Load(cfg, "./...", "github.com/mandykoh/go-parallel")
	fmt.Println(len(pkgs), err)
	for _, p := range pkgs {
		fmt.Println(p.PkgPath, len(p.Syntax), p.GoFiles, len(p.Errors))
	}
}
