// vinstr generates the overlay-instrumented sources for a prism tree (developer
// tool; the C11 check calls the same generator in-process).
// usage: vinstr <repo> <outdir> <xsched-dir>
package main

import (
	"encoding/json"
	"fmt"
	"os"

	"verif/engine/xsched/instr"
)

func main() {
	if len(os.Args) != 4 {
		fmt.Fprintln(os.Stderr, "usage: vinstr <repo> <outdir> <xsched-dir>")
		os.Exit(2)
	}
	ov, st, err := instr.Generate(os.Args[1], os.Args[2], os.Args[3])
	if err != nil {
		fmt.Fprintln(os.Stderr, err)
		os.Exit(1)
	}
	b, _ := json.MarshalIndent(st, "", " ")
	fmt.Println(ov)
	fmt.Println(string(b))
}
