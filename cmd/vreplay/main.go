// vreplay re-executes the input recorded in a replay file against the library
// directly (no explorer, no oracle): it prints what each loader and the ICC
// reader return for those bytes, all at once and one byte per call, so a
// violation can be looked at with nothing but the public API.
//
//	go run ./cmd/vreplay replays/C05-xxxx.json
package main

import (
	"bytes"
	"encoding/hex"
	"encoding/json"
	"fmt"
	"io"
	"os"
	"testing/iotest"

	"github.com/mandykoh/prism/meta"
	"github.com/mandykoh/prism/meta/autometa"
	"github.com/mandykoh/prism/meta/icc"
	"github.com/mandykoh/prism/meta/jpegmeta"
	"github.com/mandykoh/prism/meta/pngmeta"
	"github.com/mandykoh/prism/meta/webpmeta"
)

func find(v interface{}, keys ...string) string {
	m, ok := v.(map[string]interface{})
	if !ok {
		return ""
	}
	for _, k := range keys {
		if s, ok := m[k].(string); ok && s != "" {
			return s
		}
	}
	for _, x := range m {
		if s := find(x, keys...); s != "" {
			return s
		}
	}
	return ""
}

func main() {
	b, err := os.ReadFile(os.Args[1])
	if err != nil {
		fmt.Fprintln(os.Stderr, err)
		os.Exit(2)
	}
	var doc map[string]interface{}
	_ = json.Unmarshal(b, &doc)
	fmt.Printf("property %v\nkey      %v\n%v\n\n", doc["property"], doc["key"], doc["desc"])
	hx := find(doc["case"], "data_hex_first_65536", "data_hex", "Hex", "header_hex", "profile_hex_first_4096", "data_hex_first_256")
	if hx == "" {
		fmt.Println("this replay file carries no input bytes; use ./check <id> --replay <file>")
		return
	}
	data, _ := hex.DecodeString(hx)
	fmt.Printf("input: %d bytes\n", len(data))
	loaders := []struct {
		n string
		f func(io.Reader) (*meta.Data, io.Reader, error)
	}{{"pngmeta", pngmeta.Load}, {"jpegmeta", jpegmeta.Load}, {"webpmeta", webpmeta.Load}, {"autometa", autometa.Load}}
	for _, l := range loaders {
		for _, mode := range []string{"all at once", "one byte per call"} {
			var src io.Reader = bytes.NewReader(data)
			if mode != "all at once" {
				src = iotest.OneByteReader(bytes.NewReader(data))
			}
			func() {
				defer func() {
					if p := recover(); p != nil {
						fmt.Printf("%-9s %-17s PANIC %v\n", l.n, mode, p)
					}
				}()
				md, st, err := l.f(src)
				rest, rerr := io.ReadAll(st)
				if md == nil {
					fmt.Printf("%-9s %-17s md=nil err=%v; stream replays %d bytes (identical=%v, err=%v)\n", l.n, mode, err, len(rest), bytes.Equal(rest, data), rerr)
					return
				}
				iccb, ierr := md.ICCProfileData()
				desc := ""
				if p, perr := md.ICCProfile(); p != nil && perr == nil {
					desc, _ = p.Description()
				}
				fmt.Printf("%-9s %-17s %s %dx%d/%d icc=%d bytes iccErr=%v desc=%q err=%v; stream replays %d bytes (identical=%v)\n", l.n, mode, md.Format, md.PixelWidth, md.PixelHeight, md.BitsPerComponent, len(iccb), ierr, desc, err, len(rest), bytes.Equal(rest, data))
			}()
		}
	}
	func() {
		defer func() {
			if p := recover(); p != nil {
				fmt.Printf("icc       PANIC %v\n", p)
			}
		}()
		pr := data
		if len(data) == 128 {
			pr = append(append([]byte(nil), data...), 0, 0, 0, 0)
		}
		p, err := icc.NewProfileReader(bytes.NewReader(pr)).ReadProfile()
		if err != nil {
			fmt.Printf("icc       ReadProfile: %v\n", err)
			return
		}
		d, derr := p.Description()
		fmt.Printf("icc       header %+v\n          description %q err=%v\n", p.Header, d, derr)
	}()
}
