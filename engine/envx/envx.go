// Package envx is the environment explorer: an io.Reader whose answer to every
// Read call is a choice point, and a deviation-bounded depth-first search over
// those choices. The code under test is re-executed from scratch for every
// choice sequence (stateless exploration); a sequence is a list of option
// indices, index 0 being the default answer FULL.
package envx

import (
	"errors"
	"fmt"
	"io"
)

var errEOF = io.EOF

// ErrInjected is the sticky I/O error delivered by ERR / DATA+ERR answers.
var ErrInjected = errors.New("envx: injected I/O error")

type Kind int

const (
	Full    Kind = iota // min(len(p), remaining) bytes, nil
	FullEOF             // the same bytes together with io.EOF (only when they are the last ones)
	Short               // K bytes (0 < K < full), nil
	Err                 // 0 bytes and the sticky error
	DataErr             // K bytes together with the sticky error
)

type Answer struct {
	Kind Kind
	K    int
}

func (a Answer) String() string {
	switch a.Kind {
	case Full:
		return "FULL"
	case FullEOF:
		return "FULL+EOF"
	case Short:
		return fmt.Sprintf("SHORT(%d)", a.K)
	case Err:
		return "ERR"
	default:
		return fmt.Sprintf("DATA+ERR(%d)", a.K)
	}
}

// Call records one Read call and the answer given.
type Call struct {
	Len    int // len(p)
	Full   int // bytes a FULL answer would deliver
	Choice int
	NOpts  int
	Answer Answer
	Devs   int // deviations so far including this call
}

// Alphabet selects which answer kinds are offered.
type Alphabet struct {
	Shorts bool // SHORT(k)
	EOFs   bool // FULL+EOF
	Errors bool // ERR, DATA+ERR
}

// Src is the scripted source. Data may be followed by Tail virtual zero bytes.
type Src struct {
	Data   []byte
	Tail   int64
	Alpha  Alphabet
	Prefix []int // choices to replay; beyond it choice 0

	pos       int64
	err       error
	Trace     []Call
	Delivered int64
	Calls     int
	devs      int
	// Uniform, when > 0, overrides the script: every call delivers at most
	// Uniform bytes; UniformEOF piggy-backs io.EOF on the last chunk.
	Uniform    int
	UniformEOF bool
	// MaxTrace bounds the recorded trace (choice points beyond it take the default).
	MaxTrace int
	// MaxDeliver, when > 0, makes the source fail once it has delivered that
	// many bytes (a consumer that is already known to over-read is cut short
	// instead of being fed gigabytes of virtual payload). CutOff reports it.
	MaxDeliver int64
	CutOff     bool
}

func (s *Src) total() int64 { return int64(len(s.Data)) + s.Tail }

func (s *Src) options(full int, last bool) []Answer {
	opts := []Answer{{Full, full}}
	if full == 0 {
		// at end of data the only answer is EOF (handled by the caller) or an error
		if s.Alpha.Errors {
			opts = append(opts, Answer{Err, 0})
		}
		return opts
	}
	if s.Alpha.EOFs && last {
		opts = append(opts, Answer{FullEOF, full})
	}
	if s.Alpha.Shorts {
		seen := map[int]bool{}
		for _, k := range []int{1, 2, 3, full / 2, full - 1} {
			if k > 0 && k < full && !seen[k] {
				seen[k] = true
				opts = append(opts, Answer{Short, k})
			}
		}
	}
	if s.Alpha.Errors {
		opts = append(opts, Answer{Err, 0})
		seen := map[int]bool{}
		for _, k := range []int{1, full / 2, full} {
			if k > 0 && k <= full && !seen[k] {
				seen[k] = true
				opts = append(opts, Answer{DataErr, k})
			}
		}
	}
	return opts
}

func (s *Src) fill(p []byte, n int) {
	for i := 0; i < n; i++ {
		if s.pos < int64(len(s.Data)) {
			p[i] = s.Data[s.pos]
		} else {
			p[i] = 0
		}
		s.pos++
	}
	s.Delivered += int64(n)
}

// Divergence is raised (as a panic) when a replayed prefix does not fit the
// execution: the harness has lost determinism and nothing it says can be trusted.
type Divergence struct{ Msg string }

func (s *Src) Read(p []byte) (int, error) {
	s.Calls++
	if s.err != nil {
		return 0, s.err
	}
	if len(p) == 0 {
		return 0, nil
	}
	if s.MaxDeliver > 0 && s.Delivered >= s.MaxDeliver {
		s.CutOff = true
		s.err = errors.New("envx: over-read cut-off")
		return 0, s.err
	}
	rem := s.total() - s.pos
	full := len(p)
	if int64(full) > rem {
		full = int(rem)
	}
	if s.Uniform > 0 {
		if full == 0 {
			return 0, errEOF
		}
		n := full
		if n > s.Uniform {
			n = s.Uniform
		}
		s.fill(p, n)
		if s.UniformEOF && s.pos == s.total() {
			return n, errEOF
		}
		return n, nil
	}
	idx := len(s.Trace)
	if s.MaxTrace > 0 && idx >= s.MaxTrace {
		if full == 0 {
			return 0, errEOF
		}
		s.fill(p, full)
		return full, nil
	}
	opts := s.options(full, int64(full) == rem)
	choice := 0
	if idx < len(s.Prefix) {
		choice = s.Prefix[idx]
		if choice >= len(opts) {
			panic(Divergence{fmt.Sprintf("replay divergence at call %d: choice %d of %d options (len(p)=%d full=%d)", idx, choice, len(opts), len(p), full)})
		}
	}
	a := opts[choice]
	if choice != 0 {
		s.devs++
	}
	s.Trace = append(s.Trace, Call{Len: len(p), Full: full, Choice: choice, NOpts: len(opts), Answer: a, Devs: s.devs})
	switch a.Kind {
	case Full:
		if full == 0 {
			return 0, errEOF
		}
		s.fill(p, full)
		return full, nil
	case FullEOF:
		s.fill(p, full)
		return full, errEOF
	case Short:
		s.fill(p, a.K)
		return a.K, nil
	case Err:
		s.err = ErrInjected
		return 0, s.err
	default:
		s.fill(p, a.K)
		s.err = ErrInjected
		return a.K, s.err
	}
}

// Failed reports whether the sticky error has been delivered.
func (s *Src) Failed() bool { return s.err != nil }

// Stats of one exploration.
type Stats struct {
	Executions  int64
	ChoicePts   int64 // states: Read calls at which a choice was open
	Transitions int64 // answers taken
	MaxDepth    int
	Outcomes    map[string]int
}

// Explore runs exec for the empty prefix and then, depth-first, for every
// prefix that deviates from the default at one more call, while the number of
// deviations stays <= bound. exec must build a fresh Src with the given prefix,
// run the code under test, check its oracle, and return the Src (for its trace)
// plus a short outcome label.
func Explore(bound int, exec func(prefix []int) (*Src, string), st *Stats) {
	if st.Outcomes == nil {
		st.Outcomes = map[string]int{}
	}
	var rec func(prefix []int)
	rec = func(prefix []int) {
		src, outcome := exec(prefix)
		st.Executions++
		st.Outcomes[outcome]++
		if len(src.Trace) > st.MaxDepth {
			st.MaxDepth = len(src.Trace)
		}
		for i := len(prefix); i < len(src.Trace); i++ {
			c := src.Trace[i]
			st.ChoicePts++
			st.Transitions++ // the default answer taken at this point
			devsBefore := 0
			if i > 0 {
				devsBefore = src.Trace[i-1].Devs
			}
			if devsBefore+1 > bound {
				continue
			}
			for alt := 1; alt < c.NOpts; alt++ {
				np := make([]int, i+1)
				for k := 0; k < i; k++ {
					np[k] = src.Trace[k].Choice
				}
				np[i] = alt
				st.Transitions++
				rec(np)
			}
		}
	}
	rec(nil)
}

// TraceString renders a trace compactly.
func TraceString(t []Call) string {
	s := ""
	for i, c := range t {
		if i > 0 {
			s += " "
		}
		s += fmt.Sprintf("Read(%d)->%s", c.Len, c.Answer)
		if i > 40 {
			s += " ..."
			break
		}
	}
	return s
}
