// Package ev is the evidence / violation / known-findings plumbing shared by
// every check. A check creates a Run, counts what it explores, reports
// violations through Violate and ends with Finish, which writes
// /verif/evidence/<id>.json, prints the VIOLATION / KNOWN-FINDING lines and
// exits with the contract's status.
package ev

import (
	"bufio"
	"crypto/sha1"
	"encoding/hex"
	"encoding/json"
	"fmt"
	"os"
	"path/filepath"
	"runtime/debug"
	"sort"
	"strconv"
	"strings"
	"sync"
	"sync/atomic"
	"time"
)

// Root is the directory the harness lives in.
func Root() string {
	if d := os.Getenv("VERIF_ROOT"); d != "" {
		return d
	}
	return "/verif"
}

// Repo is the tree under test (the go.mod replace points at the same place).
func Repo() string {
	if d := os.Getenv("VERIF_REPO"); d != "" {
		return d
	}
	return "/repo"
}

type Violation struct {
	Key    string      `json:"key"`
	Desc   string      `json:"desc"`
	Case   interface{} `json:"case,omitempty"`
	Stable bool        `json:"reproduced_5x"`
}

type Run struct {
	Prop  string
	Tier  string
	Seed  int64
	Level string

	start time.Time

	evals  atomic.Int64
	states atomic.Int64
	trans  atomic.Int64
	traces atomic.Int64

	seen        sync.Map
	mu          sync.Mutex
	distinct    map[string]struct{}
	distinctN   int64
	rules       []string
	samples     []interface{}
	assumptions []string
	extra       map[string]interface{}
	violations  map[string]*Violation
	vorder      []string
	unstable    int
	exhaustive  bool
	caps        []string
	deadline    time.Time
}

// Begin starts a run. tier is "quick" or "thorough".
func Begin(prop, tier, level string) *Run {
	seed := int64(0)
	if s := os.Getenv("VERIF_SEED"); s != "" {
		if v, err := strconv.ParseInt(s, 10, 64); err == nil {
			seed = v
		}
	}
	r := &Run{Prop: prop, Tier: tier, Seed: seed, Level: level, start: time.Now(),
		distinct: map[string]struct{}{}, extra: map[string]interface{}{},
		violations: map[string]*Violation{}, exhaustive: true}
	budget := 20 * time.Minute
	if tier == "thorough" {
		budget = 45 * time.Minute
	}
	if s := os.Getenv("VERIF_BUDGET_S"); s != "" {
		if v, err := strconv.Atoi(s); err == nil {
			budget = time.Duration(v) * time.Second
		}
	}
	r.deadline = r.start.Add(budget)
	return r
}

// OutOfTime reports whether the internal budget is exhausted. A check that
// sees true stops enumerating, calls Cap and finishes normally (exit 0,
// exhaustive:false).
func (r *Run) OutOfTime() bool { return time.Now().After(r.deadline) }

func (r *Run) Eval(n int64)     { r.evals.Add(n) }
func (r *Run) States(n int64)   { r.states.Add(n) }
func (r *Run) Trans(n int64)    { r.trans.Add(n) }
func (r *Run) Traces(n int64)   { r.traces.Add(n) }
func (r *Run) Evals() int64     { return r.evals.Load() }
func (r *Run) NStates() int64   { return r.states.Load() }
func (r *Run) Elapsed() float64 { return time.Since(r.start).Seconds() }

// Distinct records one distinct non-trivial case under a key (set semantics).
func (r *Run) Distinct(key string) {
	r.mu.Lock()
	r.distinct[key] = struct{}{}
	r.mu.Unlock()
}

// DistinctN adds n cases that the caller has already established to be
// pairwise distinct and distinct from all keyed ones (e.g. the size of a
// locally kept set).
func (r *Run) DistinctN(n int64) {
	r.mu.Lock()
	r.distinctN += n
	r.mu.Unlock()
}

func (r *Run) Rule(s string) {
	r.mu.Lock()
	r.rules = append(r.rules, s)
	r.mu.Unlock()
}

func (r *Run) Assume(s string) {
	r.mu.Lock()
	r.assumptions = append(r.assumptions, s)
	r.mu.Unlock()
}

// Sample keeps an explored case for the evidence file (at most 12 are kept).
func (r *Run) Sample(v interface{}) {
	r.mu.Lock()
	if len(r.samples) < 12 {
		r.samples = append(r.samples, v)
	}
	r.mu.Unlock()
}

func (r *Run) Set(key string, v interface{}) {
	r.mu.Lock()
	r.extra[key] = v
	r.mu.Unlock()
}

// Cap records that a bound/budget was hit: the run is not exhaustive.
func (r *Run) Cap(what string) {
	r.mu.Lock()
	r.exhaustive = false
	dup := false
	for _, c := range r.caps {
		if c == what {
			dup = true
		}
	}
	if !dup {
		r.caps = append(r.caps, what)
	}
	r.mu.Unlock()
}

// NotExhaustive marks the space as not completely enumerated by design.
func (r *Run) NotExhaustive() {
	r.mu.Lock()
	r.exhaustive = false
	r.mu.Unlock()
}

// Violate records a violation. key identifies the failing input / call site /
// history class (it is what known_findings.txt is matched on); the first
// violation per key is kept. recheck, when non-nil, re-executes the case; it is
// called four more times and must keep failing, otherwise the case is counted
// as unstable (harness nondeterminism) and not reported.
func (r *Run) Violate(key, desc string, cs interface{}, recheck func() bool) {
	r.mu.Lock()
	if _, dup := r.violations[key]; dup {
		r.mu.Unlock()
		return
	}
	// reserve the key so that concurrent workers do not recheck it too
	v := &Violation{Key: key, Desc: desc, Case: cs, Stable: true}
	r.violations[key] = v
	r.seen.Store(key, true)
	r.vorder = append(r.vorder, key)
	r.mu.Unlock()
	if recheck != nil {
		for i := 0; i < 4; i++ {
			if !recheck() {
				r.mu.Lock()
				v.Stable = false
				r.unstable++
				r.mu.Unlock()
				return
			}
		}
	}
}

// Seen reports whether a violation with this key has been recorded already; hot
// loops use it to skip formatting the description of the millionth duplicate.
func (r *Run) Seen(key string) bool {
	_, ok := r.seen.Load(key)
	return ok
}

// NViolations is the number of distinct violation keys so far.
func (r *Run) NViolations() int {
	r.mu.Lock()
	defer r.mu.Unlock()
	return len(r.violations)
}

type finding struct {
	prop, key string
	line      string
}

func loadKnown() []finding {
	f, err := os.Open(filepath.Join(Root(), "known_findings.txt"))
	if err != nil {
		return nil
	}
	defer f.Close()
	var out []finding
	sc := bufio.NewScanner(f)
	for sc.Scan() {
		line := strings.TrimSpace(sc.Text())
		if !strings.HasPrefix(line, "finding:") {
			continue // "fixed:" entries and comments suppress nothing
		}
		var fd finding
		fd.line = line
		for _, tok := range strings.Fields(line) {
			if strings.HasPrefix(tok, "property=") {
				fd.prop = strings.TrimPrefix(tok, "property=")
			}
			if strings.HasPrefix(tok, "key=") {
				fd.key = strings.TrimPrefix(tok, "key=")
			}
		}
		if fd.prop != "" && fd.key != "" {
			out = append(out, fd)
		}
	}
	return out
}

// Finish writes the evidence file, prints the result lines and exits.
// AtExit registers f to run when the check finishes (Finish exits the process,
// so deferred calls in the check body never run).
func AtExit(f func()) {
	exitMu.Lock()
	exitFns = append(exitFns, f)
	exitMu.Unlock()
}

var (
	exitMu  sync.Mutex
	exitFns []func()
)

func runAtExit() {
	exitMu.Lock()
	fs := exitFns
	exitFns = nil
	exitMu.Unlock()
	for i := len(fs) - 1; i >= 0; i-- {
		fs[i]()
	}
}

func (r *Run) Finish() {
	runAtExit()
	known := loadKnown()
	isKnown := func(key string) *finding {
		for i := range known {
			if known[i].prop == r.Prop && known[i].key == key {
				return &known[i]
			}
		}
		return nil
	}

	r.mu.Lock()
	defer r.mu.Unlock()

	sort.Strings(r.vorder)
	var real []*Violation
	var knownHit []string
	for _, k := range r.vorder {
		v := r.violations[k]
		if !v.Stable {
			fmt.Printf("UNSTABLE property=%s key=%s (did not reproduce 5x; not reported) %s\n", r.Prop, v.Key, v.Desc)
			continue
		}
		if fd := isKnown(v.Key); fd != nil {
			fmt.Printf("KNOWN-FINDING: property=%s key=%s %s\n", r.Prop, v.Key, v.Desc)
			knownHit = append(knownHit, v.Key)
			continue
		}
		real = append(real, v)
	}

	evdir := os.Getenv("VERIF_EVIDENCE_DIR")
	if evdir == "" {
		evdir = filepath.Join(Root(), "evidence")
	}
	_ = os.MkdirAll(evdir, 0o755)

	cov := map[string]interface{}{}
	for k, v := range r.extra {
		cov[k] = v
	}
	cov["evaluations"] = r.evals.Load()
	cov["distinct_nontrivial"] = int64(len(r.distinct)) + r.distinctN
	cov["rule"] = strings.Join(r.rules, " | ")
	if len(r.samples) == 0 {
		r.samples = append(r.samples, "no sample recorded")
	}
	cov["samples"] = r.samples
	cov["exhaustive"] = r.exhaustive && len(real) == 0
	if len(r.caps) > 0 {
		cov["caps_hit"] = r.caps
	}
	if r.Level == "model_checking" {
		cov["states"] = r.states.Load()
		cov["transitions"] = r.trans.Load()
		cov["traces_validated_against_impl"] = r.traces.Load()
	}
	if r.unstable > 0 {
		cov["unstable_not_reported"] = r.unstable
	}
	if len(knownHit) > 0 {
		cov["known_findings_seen"] = knownHit
	}
	if len(real) > 0 {
		var ks []string
		for _, v := range real {
			ks = append(ks, v.Key+": "+v.Desc)
		}
		cov["violation_keys"] = ks
	}
	doc := map[string]interface{}{
		"property_id": r.Prop,
		"tier":        r.Tier,
		"seed":        r.Seed,
		"level":       r.Level,
		"coverage":    cov,
		"assumptions": append([]string{}, r.assumptions...),
		"wall_s":      time.Since(r.start).Seconds(),
		"violations":  len(real),
		"repo":        Repo(),
	}
	b, _ := json.MarshalIndent(doc, "", " ")
	if err := os.WriteFile(filepath.Join(evdir, r.Prop+".json"), append(b, '\n'), 0o644); err != nil {
		fmt.Fprintln(os.Stderr, "cannot write evidence:", err)
		os.Exit(2)
	}

	fmt.Printf("%s %s: evaluations=%d distinct=%d states=%d transitions=%d exhaustive=%v wall=%.1fs violations=%d\n",
		r.Prop, r.Tier, r.evals.Load(), int64(len(r.distinct))+r.distinctN, r.states.Load(), r.trans.Load(),
		cov["exhaustive"], time.Since(r.start).Seconds(), len(real))

	if len(real) == 0 {
		os.Exit(0)
	}
	rdir := os.Getenv("VERIF_REPLAY_DIR")
	if rdir == "" {
		rdir = filepath.Join(Root(), "replays")
	}
	_ = os.MkdirAll(rdir, 0o755)
	for _, v := range real {
		h := sha1.Sum([]byte(v.Key))
		p := filepath.Join(rdir, r.Prop+"-"+hex.EncodeToString(h[:5])+".json")
		rb, _ := json.MarshalIndent(map[string]interface{}{
			"property": r.Prop, "tier": r.Tier, "key": v.Key, "desc": v.Desc, "case": v.Case,
		}, "", " ")
		_ = os.WriteFile(p, append(rb, '\n'), 0o644)
		fmt.Printf("VIOLATION property=%s replay=%s\n", r.Prop, p)
		fmt.Printf("  key=%s %s\n", v.Key, v.Desc)
	}
	os.Exit(1)
}

// Par runs f(shard, nshards) on n goroutines and waits.
func Par(n int, f func(shard, nshards int)) {
	var wg sync.WaitGroup
	for i := 0; i < n; i++ {
		wg.Add(1)
		go func(i int) {
			defer wg.Done()
			f(i, n)
		}(i)
	}
	wg.Wait()
}

// Workers is the default degree of parallelism.
func Workers() int {
	if s := os.Getenv("VERIF_WORKERS"); s != "" {
		if v, err := strconv.Atoi(s); err == nil && v > 0 {
			return v
		}
	}
	return 16
}

// Par runs f on n goroutines; a panic that escapes from f (i.e. from the code
// under test through an unguarded call in a check) is recorded as a violation
// with its stack instead of killing the check.
func (r *Run) Par(n int, f func(shard, nshards int)) {
	Par(n, func(shard, nshards int) {
		defer func() {
			if p := recover(); p != nil {
				st := string(debug.Stack())
				if len(st) > 3000 {
					st = st[:3000]
				}
				r.Violate("panic-escaped", fmt.Sprintf("panic escaped from the code under test: %v", p), map[string]interface{}{"stack": st}, nil)
			}
		}()
		f(shard, nshards)
	})
}

// Guard runs f and records an escaping panic as a violation under key.
func (r *Run) Guard(key string, f func()) {
	defer func() {
		if p := recover(); p != nil {
			st := string(debug.Stack())
			if len(st) > 3000 {
				st = st[:3000]
			}
			r.Violate(key, fmt.Sprintf("panic escaped from the code under test: %v", p), map[string]interface{}{"stack": st}, nil)
		}
	}()
	f()
}
