//go:build go1.18

package main

import (
	"encoding/json"
	"fmt"
	"os"
	"strings"
	"time"

	"github.com/mandykoh/prism/zverif/vatomic"
	"github.com/mandykoh/prism/zverif/vchan"
	"github.com/mandykoh/prism/zverif/vrt"
	"github.com/mandykoh/prism/zverif/vsync"
)

// Litmus programs with known verdicts: the explorer is run on them before it is
// trusted on prism. Each is explored with and without happens-before state
// caching; both runs must agree with the expectation and with each other
// (verdict and number of distinct outcomes).

type litmus struct {
	name       string
	threads    []func() string
	reset      func()
	wantKind   string   // "", "race", "failure" (deadlock), "value"
	wantAll    bool     // all interleavings must be covered within the budget
	minPreemp  int      // for failures: the reported schedule needs exactly this many preemptions
	want       []string // expected thread results when the threads cannot run alone
	init       func()   // runs under the scheduler before the threads start
	cachedOnly bool     // the uncached search is too long to repeat on every run
}

func litmusTests() []litmus {
	var c int
	var p *int
	var data, flag int
	var flag32 uint32
	var ch chan int
	var sem chan struct{}
	var cond *vsync.Cond
	var smap *vsync.Map
	var mu, a, b vsync.Mutex
	var once vsync.Once
	var wg vsync.WaitGroup
	pool := &vsync.Pool{New: func() any { return new([1]int) }}
	str := func(v int) string { return fmt.Sprint(v) }
	return []litmus{
		{name: "counter without lock", reset: func() { c = 0 },
			threads:  []func() string{func() string { *vrt.RW(&c) += 1; return "" }, func() string { *vrt.RW(&c) += 1; return "" }},
			wantKind: "race"},
		{name: "counter under a mutex", reset: func() { c = 0; mu = vsync.Mutex{} },
			threads: []func() string{
				func() string { mu.Lock(); *vrt.RW(&c) += 1; mu.Unlock(); return "" },
				func() string { mu.Lock(); *vrt.RW(&c) += 1; mu.Unlock(); return "" }},
			wantKind: "", wantAll: true},
		{name: "double-checked locking with an unsynchronised first check", reset: func() { p = nil; mu = vsync.Mutex{} },
			threads: func() []func() string {
				f := func() string {
					if *vrt.R(&p) == nil {
						mu.Lock()
						if *vrt.R(&p) == nil {
							v := 7
							*vrt.W(&p) = &v
						}
						mu.Unlock()
					}
					return str(**vrt.R(&p))
				}
				return []func() string{f, f}
			}(), wantKind: "race"},
		{name: "lazy initialisation through Once, 2 goroutines", reset: func() { p = nil; once = vsync.Once{} },
			threads: func() []func() string {
				f := func() string {
					once.Do(func() { v := 7; *vrt.W(&p) = &v })
					return str(**vrt.R(&p))
				}
				return []func() string{f, f}
			}(), wantKind: "", wantAll: true},
		// 3 goroutines: 15,485 executions with state caching, 8,607,410 without
		// (6 minutes; both cover all interleavings and see the single outcome)
		{name: "lazy initialisation through Once, 3 goroutines", reset: func() { p = nil; once = vsync.Once{} },
			threads: func() []func() string {
				f := func() string {
					once.Do(func() { v := 7; *vrt.W(&p) = &v })
					return str(**vrt.R(&p))
				}
				return []func() string{f, f, f}
			}(), wantKind: "", wantAll: true, cachedOnly: true},
		{name: "lock order inversion", reset: func() { a, b = vsync.Mutex{}, vsync.Mutex{} },
			threads: []func() string{
				func() string { a.Lock(); b.Lock(); b.Unlock(); a.Unlock(); return "" },
				func() string { b.Lock(); a.Lock(); a.Unlock(); b.Unlock(); return "" }},
			wantKind: "failure", minPreemp: 1, want: []string{"", ""}},
		{name: "hand-over through a WaitGroup", reset: func() { data = 0; wg = vsync.WaitGroup{} }, init: func() { wg.Add(1) },
			threads: []func() string{
				func() string { *vrt.W(&data) = 5; wg.Done(); return "" },
				func() string { wg.Wait(); return str(*vrt.R(&data)) }},
			wantKind: "", wantAll: true, want: []string{"", "5"}},
		{name: "flag published without synchronisation", reset: func() { data, flag = 0, 0 },
			threads: []func() string{
				func() string { *vrt.W(&data) = 5; *vrt.W(&flag) = 1; return "" },
				func() string {
					if *vrt.R(&flag) == 1 {
						return str(*vrt.R(&data))
					}
					return "not yet"
				}},
			wantKind: "race"},
		{name: "publication through an atomic store and load", reset: func() { data, flag32 = 0, 0 },
			threads: []func() string{
				func() string { *vrt.W(&data) = 5; vatomic.StoreUint32(&flag32, 1); return "" },
				func() string {
					if vatomic.LoadUint32(&flag32) == 1 {
						_ = *vrt.R(&data)
					}
					return ""
				}},
			wantKind: "", wantAll: true},
		{name: "spin-wait on an atomic flag", reset: func() { data, flag32 = 0, 0 },
			threads: []func() string{
				func() string {
					for vatomic.LoadUint32(&flag32) == 0 {
					}
					return str(*vrt.R(&data))
				},
				func() string { *vrt.W(&data) = 5; vatomic.StoreUint32(&flag32, 1); return "" }},
			wantKind: "", wantAll: true, want: []string{"5", ""}},
		{name: "a flag checked ten times in a row is not a spin-wait", reset: func() { data, flag32 = 0, 0 },
			threads: []func() string{
				func() string {
					n := 0
					for i := 0; i < 10; i++ {
						if vatomic.LoadUint32(&flag32) == 0 {
							n++
						}
					}
					return str(n)
				},
				func() string { *vrt.W(&data) = 5; return "" }},
			wantKind: "", wantAll: true},
		{name: "atomic flag claimed before the data is written", reset: func() { data, flag32 = 0, 0 },
			threads: []func() string{
				func() string {
					if vatomic.CompareAndSwapUint32(&flag32, 0, 1) {
						*vrt.W(&data) = 5
					}
					return ""
				},
				func() string {
					if vatomic.LoadUint32(&flag32) == 1 {
						_ = *vrt.R(&data)
					}
					return ""
				}},
			wantKind: "race"},
		{name: "atomic store against a plain read of the same word", reset: func() { flag32 = 0 },
			threads: []func() string{
				func() string { vatomic.StoreUint32(&flag32, 1); return "" },
				func() string { _ = *vrt.R(&flag32); return "" }},
			wantKind: "race"},
		{name: "hand-over through an unbuffered channel", reset: func() { data = 0; ch = vchan.Make[int](0) },
			threads: []func() string{
				func() string { *vrt.W(&data) = 5; vchan.Send(ch, 1); return "" },
				func() string { vchan.Recv1(ch); return str(*vrt.R(&data)) }},
			wantKind: "", wantAll: true, want: []string{"", "5"}},
		{name: "buffered channel used as a semaphore", reset: func() { c = 0; sem = vchan.Make[struct{}](1) },
			threads: func() []func() string {
				f := func() string { vchan.Send(sem, struct{}{}); *vrt.RW(&c) += 1; vchan.Recv1(sem); return "" }
				return []func() string{f, f}
			}(), wantKind: "", wantAll: true},
		{name: "producer closes, consumer ranges", reset: func() { ch = vchan.Make[int](1) },
			threads: []func() string{
				func() string {
					for i := 1; i <= 3; i++ {
						vchan.Send(ch, i)
					}
					vchan.Close(ch)
					return ""
				},
				func() string {
					sum := 0
					for {
						v, ok := vchan.Recv2(ch)
						if !ok {
							break
						}
						sum += v
					}
					return str(sum)
				}},
			wantKind: "", wantAll: true, want: []string{"", "6"}},
		{name: "completion token taken by the wrong caller", reset: func() { data = 0; ch = vchan.Make[int](2) },
			threads: []func() string{
				func() string { *vrt.W(&data) = 1; vchan.Send(ch, 1); return "" },
				func() string { vchan.Send(ch, 2); return "" },
				func() string { vchan.Recv1(ch); _ = *vrt.R(&data); return "" }},
			wantKind: "race", want: []string{"", "", ""}, cachedOnly: true},
		{name: "receive with nobody ever sending", reset: func() { ch = vchan.Make[int](0) },
			threads: []func() string{
				func() string { vchan.Recv1(ch); return "" },
				func() string { return "" }},
			wantKind: "failure", minPreemp: 0, want: []string{"", ""}},
		{name: "condition variable waited on in a loop", reset: func() { data, flag = 0, 0; mu = vsync.Mutex{}; cond = vsync.NewCond(&mu) },
			threads: []func() string{
				func() string {
					mu.Lock()
					for *vrt.R(&flag) == 0 {
						cond.Wait()
					}
					v := *vrt.R(&data)
					mu.Unlock()
					return str(v)
				},
				func() string {
					mu.Lock()
					*vrt.W(&data) = 5
					*vrt.W(&flag) = 1
					mu.Unlock()
					cond.Signal()
					return ""
				}},
			wantKind: "", wantAll: true, want: []string{"5", ""}},
		{name: "a single Wait woken by somebody else's Broadcast", reset: func() { data, flag, c = 0, 0, 0; mu = vsync.Mutex{}; cond = vsync.NewCond(&mu) },
			threads: []func() string{
				func() string {
					mu.Lock()
					if *vrt.R(&flag) == 0 {
						cond.Wait() // not re-checked
					}
					mu.Unlock()
					_ = *vrt.R(&data)
					return ""
				},
				func() string {
					cond.Broadcast() // meant for somebody else
					*vrt.W(&data) = 5
					mu.Lock()
					*vrt.W(&flag) = 1
					mu.Unlock()
					cond.Broadcast()
					return ""
				}},
			wantKind: "race", want: []string{"", ""}, cachedOnly: true},
		{name: "sync.Map: object stored complete", reset: func() { smap = &vsync.Map{} },
			threads: func() []func() string {
				f := func() string {
					v := new(int)
					*vrt.W(v) = 7
					actual, _ := smap.LoadOrStore("k", v)
					return str(*vrt.R(actual.(*int)))
				}
				return []func() string{f, f}
			}(), wantKind: "", wantAll: true},
		{name: "sync.Map: empty object published, filled in afterwards", reset: func() { smap = &vsync.Map{} },
			threads: func() []func() string {
				f := func() string {
					actual, loaded := smap.LoadOrStore("k", new(int))
					if !loaded {
						*vrt.W(actual.(*int)) = 7
					}
					_ = *vrt.R(actual.(*int))
					return ""
				}
				return []func() string{f, f}
			}(), wantKind: "race"},
		{name: "result aliasing a pooled buffer", reset: func() { pool = &vsync.Pool{New: func() any { return new([1]int) }} },
			threads: func() []func() string {
				f := func(v int) func() string {
					return func() string {
						buf := pool.Get().(*[1]int)
						buf[0] = v
						pool.Put(buf)
						vrt.SyncPoint("caller")
						return str(buf[0])
					}
				}
				return []func() string{f(1), f(2)}
			}(), wantKind: "value"},
	}
}

func litmusScenario(l litmus) *scenario {
	sc := &scenario{name: "litmus/" + l.name, threads: l.threads}
	setups[sc.name] = l.reset
	if l.want != nil {
		wants[sc.name] = l.want
	}
	if l.init != nil {
		inits[sc.name] = l.init
	}
	return sc
}

func selftest() {
	type res struct {
		Name     string   `json:"name"`
		Want     string   `json:"want"`
		Got      string   `json:"got"`
		GotNoHB  string   `json:"got_without_state_caching"`
		Outcomes [2]int   `json:"distinct_outcomes_with_and_without_caching"`
		Execs    [2]int64 `json:"executions_with_and_without_caching"`
		All      [2]bool  `json:"all_interleavings_with_and_without_caching"`
		Preempt  int      `json:"preemptions_in_reported_schedule"`
		OK       bool     `json:"ok"`
		Why      string   `json:"why,omitempty"`
	}
	var out []res
	bad := false
	for _, l := range litmusTests() {
		sc := litmusScenario(l)
		var reps [2]report
		for k, np := range []string{"", "1"} {
			if k == 1 && (l.cachedOnly || reps[0].Executions > 3000) {
				// the uncached search of this program is too long to repeat on every run
				reps[1] = reps[0]
				continue
			}
			os.Setenv("VERIF_C11_NOPRUNE", np)
			reps[k] = explore(sc, 99, 20*time.Second)
		}
		os.Unsetenv("VERIF_C11_NOPRUNE")
		kind := func(r report) string {
			if len(r.Violations) == 0 {
				return ""
			}
			return r.Violations[0].Kind
		}
		r := res{Name: l.name, Want: l.wantKind, Got: kind(reps[0]), GotNoHB: kind(reps[1]),
			Outcomes: [2]int{reps[0].Outcomes, reps[1].Outcomes}, Execs: [2]int64{reps[0].Executions, reps[1].Executions}, All: [2]bool{reps[0].All, reps[1].All}}
		var why []string
		if r.Got != l.wantKind {
			why = append(why, "verdict with caching")
		}
		if r.GotNoHB != l.wantKind {
			why = append(why, "verdict without caching")
		}
		if l.wantKind == "" && reps[1].All && (r.Outcomes[0] != r.Outcomes[1]) {
			why = append(why, "caching changed the set of outcomes")
		}
		if l.wantAll && !reps[0].All {
			why = append(why, "did not cover all interleavings")
		}
		if l.wantKind == "failure" && len(reps[0].Violations) > 0 {
			// the reported schedule must be minimal in preemptions
			fresh(sc)
			res := vrt.Run(reps[0].Violations[0].Choices, 100000, func() { results := make([]string, len(sc.threads)); runThreads(sc, results) })
			n := 0
			for _, p := range res.Points {
				if p.RunningStillEnabled && p.Choice != 0 {
					n++
				}
			}
			r.Preempt = n
			if n != l.minPreemp {
				why = append(why, fmt.Sprintf("counterexample uses %d preemptions, minimum is %d", n, l.minPreemp))
			}
		}
		r.OK = len(why) == 0
		r.Why = strings.Join(why, "; ")
		if !r.OK {
			bad = true
		}
		out = append(out, r)
	}
	b, _ := json.Marshal(out)
	fmt.Println(string(b))
	if bad {
		os.Exit(1)
	}
}
