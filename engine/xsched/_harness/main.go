//go:build go1.18

// Harness for engine A (C11). It is compiled, through the overlay, as the
// virtual package github.com/mandykoh/prism/zverif/harness against the
// instrumented copy of the tree.
//
//	harness list
//	harness explore <scenario> <guaranteed preemption bound> <budget seconds>
//	harness replay <scenario> <c0,c1,...>       (one execution under recorded choices)
//	harness free <scenario> <iterations>        (no scheduler; for go build -race)
package main

import (
	"bytes"
	"compress/zlib"
	"encoding/json"
	"fmt"
	"hash/crc32"
	"image"
	"image/color"
	"os"
	"runtime"
	"sort"
	"strconv"
	"strings"
	"time"

	"github.com/mandykoh/prism"
	"github.com/mandykoh/prism/adobergb"
	"github.com/mandykoh/prism/cielab"
	"github.com/mandykoh/prism/ciexyy"
	"github.com/mandykoh/prism/ciexyz"
	"github.com/mandykoh/prism/displayp3"
	"github.com/mandykoh/prism/linear"
	"github.com/mandykoh/prism/meta"
	"github.com/mandykoh/prism/meta/autometa"
	"github.com/mandykoh/prism/meta/icc"
	"github.com/mandykoh/prism/meta/jpegmeta"
	"github.com/mandykoh/prism/meta/pngmeta"
	"github.com/mandykoh/prism/meta/webpmeta"
	"github.com/mandykoh/prism/prophotorgb"
	"github.com/mandykoh/prism/srgb"
	"github.com/mandykoh/prism/zverif/vrt"
	"github.com/mandykoh/prism/zverif/vsync"
	"io"
)

// a scenario is a list of goroutine bodies, each returning a printable result.
type scenario struct {
	name    string
	threads []func() string
}

// setups: scenario name -> builds the objects the threads share, run before
// the threads start (unscheduled, unhooked: it happens-before every thread).
var setups = map[string]func(){}

// inits: scenario name -> runs inside the scheduler, on the main thread, before
// the threads are spawned (for state that has to be set up through the model,
// e.g. a WaitGroup counter).
var inits = map[string]func(){}

// wants: scenario name -> expected result per thread, for scenarios whose
// threads cannot be executed alone.
var wants = map[string][]string{}

func par(fs ...func() string) []func() string { return fs }

func f32(v float32) string { return strconv.FormatFloat(float64(v), 'g', -1, 32) }

func seq(calls ...func() string) func() string {
	return func() string {
		var o []string
		for _, c := range calls {
			o = append(o, c())
		}
		return strings.Join(o, ";")
	}
}

type coder struct {
	name   string
	from16 func(uint16) float32
	to16   func(float32) uint16
	lin    func(color.Color) color.RGBA64
	enc    func(color.Color) color.RGBA64
}

var coders = []coder{
	{"srgb", srgb.From16Bit, srgb.To16Bit, srgb.LineariseColor, srgb.EncodeColor},
	{"adobergb", adobergb.From16Bit, adobergb.To16Bit, adobergb.LineariseColor, adobergb.EncodeColor},
	{"prophotorgb", prophotorgb.From16Bit, prophotorgb.To16Bit, prophotorgb.LineariseColor, prophotorgb.EncodeColor},
}

func fillPix(p []uint8, seed int) {
	for i := range p {
		p[i] = uint8((i*37 + 11 + seed*101) % 251)
	}
}

// pixString is the caller reading its result: the reads go through the hook so
// that a worker still writing after the call has returned (a goroutine that
// outlives the call) is an unordered write/read pair for the race oracle.
func pixString(p []uint8) string {
	if vrt.Active() {
		for i := 0; i < len(p); i += 8 {
			_ = *vrt.R(&p[i])
		}
	}
	return fmt.Sprintf("%x", p)
}

func tinyPNG() []byte {
	return []byte("\x89PNG\r\n\x1a\n\x00\x00\x00\rIHDR\x00\x00\x00\x02\x00\x00\x00\x03\x08\x02\x00\x00\x00\x12\x34\x56\x78\x00\x00\x00\x04gAMA\x00\x00\xb1\x8f\x00\x00\x00\x00\x00\x00\x00\x00IDAT\x00\x00\x00\x00")
}

func tinyJPEG() []byte {
	return []byte("\xff\xd8\xff\xe2\x00\x14ICC_PROFILE\x00\x01\x01abcd\xff\xc0\x00\x11\x08\x00\x20\x00\x30\x03\x01\x22\x00\x02\x11\x01\x03\x11\x01\xff\xda\x00\x0c\x03\x01\x00\x02\x11\x03\x11\x00\x3f\x00\x00")
}

// twoChunkJPEG carries an ICC profile split over two APP2 segments (stored in
// reverse order); tag makes the profile bytes distinct per goroutine.
func twoChunkJPEG(tag byte) []byte {
	b := []byte("\xff\xd8")
	b = append(b, []byte("\xff\xe2\x00\x16ICC_PROFILE\x00\x02\x02")...)
	b = append(b, tag, tag+1, tag+2, tag+3, tag+4, tag+5)
	b = append(b, []byte("\xff\xe2\x00\x14ICC_PROFILE\x00\x01\x02")...)
	b = append(b, tag+9, tag+8, tag+7, tag+6)
	return append(b, []byte("\xff\xc0\x00\x11\x08\x00\x20\x00\x30\x03\x01\x22\x00\x02\x11\x01\x03\x11\x01\xff\xda\x00\x0c\x03\x01\x00\x02\x11\x03\x11\x00\x3f\x00\x00")...)
}

// pngWithICC is a 2x3 PNG with an iCCP chunk (deflated) holding a 40-byte
// profile whose bytes are distinct per tag.
func pngWithICC(tag byte) []byte {
	chunk := func(typ string, data []byte) []byte {
		b := []byte{byte(len(data) >> 24), byte(len(data) >> 16), byte(len(data) >> 8), byte(len(data))}
		b = append(b, typ...)
		b = append(b, data...)
		c := crc32.ChecksumIEEE(b[4:])
		return append(b, byte(c>>24), byte(c>>16), byte(c>>8), byte(c))
	}
	prof := make([]byte, 40)
	for i := range prof {
		prof[i] = tag + byte(i*7)
	}
	var z bytes.Buffer
	zw := zlib.NewWriter(&z)
	zw.Write(prof)
	zw.Close()
	b := []byte("\x89PNG\r\n\x1a\n")
	b = append(b, chunk("IHDR", []byte{0, 0, 0, 2, 0, 0, 0, 3, 8, 2, 0, 0, 0})...)
	b = append(b, chunk("iCCP", append([]byte("p\x00\x00"), z.Bytes()...))...)
	b = append(b, chunk("IDAT", []byte{0x78, 0x9c, 1, 2, 3})...)
	return append(b, chunk("IEND", nil)...)
}

// pngWithBigICC: like pngWithICC with a 24 KB profile that deflate cannot shrink.
func pngWithBigICC(tag byte) []byte {
	chunk := func(typ string, data []byte) []byte {
		b := []byte{byte(len(data) >> 24), byte(len(data) >> 16), byte(len(data) >> 8), byte(len(data))}
		b = append(b, typ...)
		b = append(b, data...)
		c := crc32.ChecksumIEEE(b[4:])
		return append(b, byte(c>>24), byte(c>>16), byte(c>>8), byte(c))
	}
	prof := make([]byte, 24000)
	x := uint32(tag)*2654435761 + 12345
	for i := range prof {
		x = x*1664525 + 1013904223
		prof[i] = byte(x >> 24)
	}
	var z bytes.Buffer
	zw := zlib.NewWriter(&z)
	zw.Write(prof)
	zw.Close()
	b := []byte("\x89PNG\r\n\x1a\n")
	b = append(b, chunk("IHDR", []byte{0, 0, 0, 2, 0, 0, 0, 3, 8, 2, 0, 0, 0})...)
	b = append(b, chunk("iCCP", append([]byte("big\x00\x00"), z.Bytes()...))...)
	b = append(b, chunk("IDAT", []byte{0x78, 0x9c, 1, 2, 3})...)
	return append(b, chunk("IEND", nil)...)
}

// bigHeaderJPEG: SOI, an APP1 segment of pad bytes, an ICC profile of iccLen
// bytes split over as many APP2 chunks as needed, then the frame header.
func bigHeaderJPEG(tag byte, pad, iccLen int) []byte {
	b := []byte("\xff\xd8")
	seg := func(marker byte, data []byte) {
		n := len(data) + 2
		b = append(b, 0xff, marker, byte(n>>8), byte(n))
		b = append(b, data...)
	}
	p := make([]byte, pad)
	for i := range p {
		p[i] = tag + byte(i)
	}
	seg(0xe1, p)
	prof := make([]byte, iccLen)
	for i := range prof {
		prof[i] = tag ^ byte(i*13)
	}
	const max = 65519
	total := (iccLen + max - 1) / max
	for k := 0; k < total; k++ {
		end := (k + 1) * max
		if end > iccLen {
			end = iccLen
		}
		seg(0xe2, append([]byte("ICC_PROFILE\x00"+string([]byte{byte(k + 1), byte(total)})), prof[k*max:end]...))
	}
	return append(b, []byte("\xff\xc0\x00\x11\x08\x00\x20\x00\x30\x03\x01\x22\x00\x02\x11\x01\x03\x11\x01\xff\xda\x00\x0c\x03\x01\x00\x02\x11\x03\x11\x00\x3f\x00\x00")...)
}

// badICCPPNG: a PNG whose iCCP payload is not a zlib stream, with chunks after it.
func badICCPPNG() []byte {
	b := pngWithICC(0x55)
	i := bytes.Index(b, []byte("p\x00\x00"))
	b[i+3], b[i+4] = 0, 0
	return b
}

func tinyWebP() []byte {
	return []byte("RIFF\x1a\x00\x00\x00WEBPVP8L\x0d\x00\x00\x00\x2f\x13\x40\x02\x10\x01\x02\x03\x04\x05\x00\x00\x00")
}

func loadString(load func(io.Reader) (*meta.Data, io.Reader, error), data []byte) func() string {
	return func() string {
		md, st, err := load(bytes.NewReader(data))
		// the caller may be descheduled between getting its results and using them
		vrt.SyncPoint("caller: Load returned")
		rest, _ := io.ReadAll(st)
		if md == nil {
			return fmt.Sprintf("nil/%v/%d", err != nil, len(rest))
		}
		icc, ierr := md.ICCProfileData()
		p, perr := md.ICCProfile()
		desc := ""
		if p != nil {
			desc, _ = p.Description()
		}
		return fmt.Sprintf("%s %dx%d/%d icc=%x/%v prof=%v desc=%q err=%v rest=%d", md.Format, md.PixelWidth, md.PixelHeight, md.BitsPerComponent, icc, ierr != nil, perr != nil, desc, err != nil, len(rest))
	}
}

func scenarios() []scenario {
	var out []scenario
	for _, c := range coders {
		c := c
		from := func(v uint16) func() string { return func() string { return f32(c.from16(v)) } }
		to := func(x float32) func() string { return func() string { return fmt.Sprint(c.to16(x)) } }
		lin := func(v uint16) func() string {
			return func() string { return fmt.Sprint(c.lin(color.NRGBA64{R: v, G: v / 2, B: 65535 - v, A: 65535})) }
		}
		enc := func(v uint16) func() string {
			return func() string { return fmt.Sprint(c.enc(color.RGBA64{R: v, G: v / 2, B: v / 3, A: v})) }
		}
		out = append(out,
			scenario{c.name + "/first From16Bit x2", par(from(1000), from(60000))},
			scenario{c.name + "/first To16Bit x2", par(to(0.25), to(0.75))},
			scenario{c.name + "/first From16Bit vs To16Bit", par(from(1234), to(0.5))},
			scenario{c.name + "/first LineariseColor vs EncodeColor", par(lin(4000), enc(30000))},
			scenario{c.name + "/two calls each", par(seq(from(10), to(0.1)), seq(to(0.9), from(65000)))},
			scenario{c.name + "/first From16Bit x3", par(from(1), from(2), from(65535))},
			scenario{c.name + "/first To16Bit x3", par(to(0.1), to(0.2), to(1))},
			scenario{c.name + "/first use x4 mixed", par(from(7), to(0.7), lin(77), enc(777))},
		)
	}
	out = append(out,
		scenario{"srgb+displayp3/shared tables", par(
			func() string { return f32(srgb.From16Bit(777)) },
			func() string {
				c, a := displayp3.ColorFromEncodedColor(color.NRGBA64{R: 777, G: 888, B: 999, A: 65535})
				return fmt.Sprint(c, a)
			})},
		scenario{"srgb+displayp3/encode", par(
			func() string { return fmt.Sprint(srgb.To16Bit(0.3)) },
			func() string {
				return fmt.Sprint(displayp3.EncodeColor(color.RGBA64{R: 100, G: 20000, B: 65535, A: 65535}))
			})},
		scenario{"all spaces/first decode", par(
			func() string { return f32(srgb.From16Bit(5)) },
			func() string { return f32(adobergb.From16Bit(5)) },
			func() string { return f32(prophotorgb.From16Bit(5)) })},
	)

	// image transforms: the library spawns its own workers
	type imgCase struct {
		name string
		run  func(par int) string
	}
	mkSrc := func(kind string) image.Image {
		r := image.Rect(0, 0, 3, 2)
		switch kind {
		case "RGBA64":
			m := image.NewRGBA64(r)
			fillPix(m.Pix, 1)
			return m
		case "NRGBA":
			m := image.NewNRGBA(r)
			fillPix(m.Pix, 2)
			return m
		default:
			m := image.NewYCbCr(r, image.YCbCrSubsampleRatio420)
			fillPix(m.Y, 3)
			fillPix(m.Cb, 4)
			fillPix(m.Cr, 5)
			return m
		}
	}
	imgs := []imgCase{
		{"srgb.LineariseImage RGBA64->RGBA64", func(p int) string {
			d := image.NewRGBA64(image.Rect(0, 0, 3, 2))
			srgb.LineariseImage(d, mkSrc("RGBA64"), p)
			return pixString(d.Pix)
		}},
		{"adobergb.EncodeImage RGBA64 in place", func(p int) string {
			d := mkSrc("RGBA64").(*image.RGBA64)
			adobergb.EncodeImage(d, d, p)
			return pixString(d.Pix)
		}},
		{"prophotorgb.LineariseImage NRGBA->RGBA64", func(p int) string {
			d := image.NewRGBA64(image.Rect(0, 0, 3, 2))
			prophotorgb.LineariseImage(d, mkSrc("NRGBA"), p)
			return pixString(d.Pix)
		}},
		{"displayp3.EncodeImage NRGBA->RGBA", func(p int) string {
			d := image.NewRGBA(image.Rect(0, 0, 3, 2))
			displayp3.EncodeImage(d, mkSrc("NRGBA"), p)
			return pixString(d.Pix)
		}},
		{"srgb.EncodeImage YCbCr->NRGBA (generic Set)", func(p int) string {
			d := image.NewNRGBA(image.Rect(0, 0, 3, 2))
			srgb.EncodeImage(d, mkSrc("YCbCr"), p)
			return pixString(d.Pix)
		}},
		{"linear.TransformImageColor rotate RGBA64->RGBA64", func(p int) string {
			d := image.NewRGBA64(image.Rect(0, 0, 3, 2))
			linear.TransformImageColor(d, mkSrc("RGBA64"), p, func(c color.Color) color.RGBA64 {
				r, g, b, a := c.RGBA()
				return color.RGBA64{R: uint16(g), G: uint16(b), B: uint16(r), A: uint16(a)}
			})
			return pixString(d.Pix)
		}},
		{"prism.ConvertImageToNRGBA YCbCr", func(p int) string { return pixString(prism.ConvertImageToNRGBA(mkSrc("YCbCr"), p).Pix) }},
		{"prism.ConvertImageToRGBA RGBA64", func(p int) string { return pixString(prism.ConvertImageToRGBA(mkSrc("RGBA64"), p).Pix) }},
		{"prism.ConvertImageToRGBA64 NRGBA", func(p int) string { return pixString(prism.ConvertImageToRGBA64(mkSrc("NRGBA"), p).Pix) }},
		{"prism.ConvertImageToRGBA64 YCbCr", func(p int) string { return pixString(prism.ConvertImageToRGBA64(mkSrc("YCbCr"), p).Pix) }},
	}
	for _, ic := range imgs {
		ic := ic
		for _, p := range []int{2, 3} {
			p := p
			out = append(out, scenario{fmt.Sprintf("image/%s parallelism %d", ic.name, p), par(func() string { return ic.run(p) })})
		}
	}
	// more workers than fit evenly, taller image
	tall := func(p int) string {
		src := image.NewRGBA64(image.Rect(0, 0, 2, 7))
		fillPix(src.Pix, 9)
		d := image.NewRGBA64(image.Rect(0, 0, 2, 7))
		adobergb.LineariseImage(d, src, p)
		return pixString(d.Pix)
	}
	for _, p := range []int{5, 11} {
		p := p
		out = append(out, scenario{fmt.Sprintf("image/adobergb.LineariseImage RGBA64 2x7 parallelism %d", p), par(func() string { return tall(p) })})
	}
	// shapes whose rows do not divide among the workers the usual way: fewer rows
	// than workers with a width that the worker count does not divide, a single
	// column, in place and into a fresh destination
	shaped := func(w, h, p int, inPlace bool) string {
		src := image.NewRGBA64(image.Rect(0, 0, w, h))
		fillPix(src.Pix, 7)
		d := src
		if !inPlace {
			d = image.NewRGBA64(image.Rect(0, 0, w, h))
		}
		linear.TransformImageColor(d, src, p, func(c color.Color) color.RGBA64 {
			r, g, b, a := c.RGBA()
			return color.RGBA64{R: uint16(r/2 + 1), G: uint16(g / 2), B: uint16(b / 2), A: uint16(a)}
		})
		return pixString(d.Pix)
	}
	for _, sh := range []struct {
		w, h, p int
		inPlace bool
	}{{5, 1, 2, true}, {5, 1, 2, false}, {7, 2, 3, true}, {5, 1, 4, true}, {1, 5, 2, true}, {7, 3, 4, false},
		// one column, more rows than a plausible band or batch size (8, 16, 32) plus a remainder
		{1, 17, 2, false}, {1, 35, 3, false},
		// ... and fewer bands of such a size than workers
		{1, 17, 4, false}, {1, 35, 5, false}, {1, 9, 2, true}, {1, 9, 3, false}} {
		sh := sh
		out = append(out, scenario{fmt.Sprintf("image/linear.TransformImageColor halve %dx%d parallelism %d in place=%v", sh.w, sh.h, sh.p, sh.inPlace), par(func() string { return shaped(sh.w, sh.h, sh.p, sh.inPlace) })})
	}
	// the conversion helpers on one-column images taller than a plausible chunk size, with a remainder of 1-3 rows
	tallSrc := func(kind string, h int) image.Image {
		r := image.Rect(0, 0, 1, h)
		switch kind {
		case "NRGBA":
			m := image.NewNRGBA(r)
			fillPix(m.Pix, 12)
			return m
		case "RGBA64":
			m := image.NewRGBA64(r)
			fillPix(m.Pix, 13)
			return m
		default:
			m := image.NewYCbCr(r, image.YCbCrSubsampleRatio444)
			fillPix(m.Y, 3)
			fillPix(m.Cb, 4)
			fillPix(m.Cr, 5)
			return m
		}
	}
	for _, tc := range []struct {
		name string
		h, p int
		run  func(h, p int) string
	}{
		{"prism.ConvertImageToRGBA64 NRGBA", 17, 2, func(h, p int) string { return pixString(prism.ConvertImageToRGBA64(tallSrc("NRGBA", h), p).Pix) }},
		{"prism.ConvertImageToRGBA64 NRGBA", 35, 3, func(h, p int) string { return pixString(prism.ConvertImageToRGBA64(tallSrc("NRGBA", h), p).Pix) }},
		{"prism.ConvertImageToRGBA RGBA64", 18, 2, func(h, p int) string { return pixString(prism.ConvertImageToRGBA(tallSrc("RGBA64", h), p).Pix) }},
		{"prism.ConvertImageToNRGBA YCbCr", 19, 4, func(h, p int) string { return pixString(prism.ConvertImageToNRGBA(tallSrc("YCbCr", h), p).Pix) }},
	} {
		tc := tc
		out = append(out, scenario{fmt.Sprintf("image/%s 1x%d parallelism %d", tc.name, tc.h, tc.p), par(func() string { return tc.run(tc.h, tc.p) })})
	}
	// parallelism values at and below the documented minimum, from two goroutines at once
	// (a negative value makes go-parallel panic on its WaitGroup: outside the property)
	for _, p := range []int{2, 1, 0} {
		p := p
		out = append(out, scenario{fmt.Sprintf("image/two ConvertImageTo* calls with parallelism %d", p), par(
			func() string { return pixString(prism.ConvertImageToRGBA(mkSrc("RGBA64"), p).Pix) },
			func() string { return pixString(prism.ConvertImageToNRGBA(mkSrc("YCbCr"), p).Pix) })})
	}
	out = append(out, scenario{"image/two transforms at once with parallelism 1", par(
		func() string { return imgs[0].run(1) },
		func() string { return imgs[3].run(1) })})
	// two image transforms at once (each with its own workers), tables first touched inside workers
	out = append(out, scenario{"image/two transforms at once", par(
		func() string { return imgs[0].run(2) },
		func() string { return imgs[2].run(2) })})

	// metadata and colorimetry
	out = append(out,
		scenario{"meta/two pngmeta.Load", par(loadString(pngmeta.Load, tinyPNG()), loadString(pngmeta.Load, tinyPNG()))},
		scenario{"meta/two pngmeta.Load with iCCP", par(loadString(pngmeta.Load, pngWithICC(0x11)), loadString(pngmeta.Load, pngWithICC(0x83)))},
		scenario{"meta/autometa.Load x2 png with iCCP", par(loadString(autometa.Load, pngWithICC(0x21)), loadString(autometa.Load, pngWithICC(0x93)))},
		scenario{"meta/pngmeta.Load with a 24 KB incompressible iCCP", par(loadString(pngmeta.Load, pngWithBigICC(0x31)))},
		scenario{"meta/two pngmeta.Load with 24 KB incompressible iCCP", par(loadString(pngmeta.Load, pngWithBigICC(0x41)), loadString(autometa.Load, pngWithBigICC(0xA3)))},
		// inputs on the far side of the loaders' buffer sizes, and malformed inputs (the
		// recover paths run too)
		scenario{"meta/two jpegmeta.Load, 5 KB of APP1 before the ICC chunk and the frame header", par(loadString(jpegmeta.Load, bigHeaderJPEG(0x15, 5000, 600)), loadString(autometa.Load, bigHeaderJPEG(0x85, 5000, 600)))},
		scenario{"meta/jpegmeta.Load vs autometa.Load, 70 KB ICC profile in two chunks", par(loadString(jpegmeta.Load, bigHeaderJPEG(0x25, 10, 70000)), loadString(autometa.Load, bigHeaderJPEG(0x95, 10, 70000)))},
		scenario{"meta/autometa.Load x3 malformed: short SOF, iCCP that is not zlib, RIFF cut short", par(
			loadString(autometa.Load, []byte("\xff\xd8\xff\xe0\x00\x04JF\xff\xc0\x00\x04\x08\x00\xff\xda\x00\x02")),
			loadString(autometa.Load, badICCPPNG()),
			loadString(autometa.Load, []byte("RIFF\x40\x00\x00\x00WEBPVP8X\x0a\x00\x00\x00\x20\x00\x00\x00\x10\x00\x00\x10\x00\x00ICCP\x30\x00\x00\x00abc")))},
		scenario{"meta/two jpegmeta.Load", par(loadString(jpegmeta.Load, tinyJPEG()), loadString(jpegmeta.Load, tinyJPEG()))},
		scenario{"meta/two jpegmeta.Load multi-chunk ICC", par(loadString(jpegmeta.Load, twoChunkJPEG(0x10)), loadString(jpegmeta.Load, twoChunkJPEG(0x80)))},
		scenario{"meta/autometa.Load x2 multi-chunk ICC", par(loadString(autometa.Load, twoChunkJPEG(0x20)), loadString(autometa.Load, twoChunkJPEG(0x90)))},
		scenario{"meta/two webpmeta.Load", par(loadString(webpmeta.Load, tinyWebP()), loadString(webpmeta.Load, tinyWebP()))},
		scenario{"meta/autometa.Load x2 different formats", par(loadString(autometa.Load, tinyJPEG()), loadString(autometa.Load, tinyWebP()))},
		scenario{"meta/autometa.Load x3 png jpeg webp", par(loadString(autometa.Load, tinyPNG()), loadString(autometa.Load, tinyJPEG()), loadString(autometa.Load, tinyWebP()))},
		scenario{"meta/autometa.Load vs jpegmeta.Load same file", par(loadString(autometa.Load, tinyJPEG()), loadString(jpegmeta.Load, tinyJPEG()))},
		scenario{"ciexyz/two adaptations", par(
			func() string { return fmt.Sprint(ciexyz.AdaptBetweenXYYWhitePoints(ciexyy.D50, ciexyy.D65)) },
			func() string {
				return fmt.Sprint(ciexyz.AdaptBetweenXYYWhitePoints(ciexyy.D65, ciexyy.D50).Apply(ciexyz.Color{X: 0.3, Y: 0.4, Z: 0.5}))
			})},
	)
	// objects shared between callers: one metadata record and one parsed profile
	// used by two goroutines, one source image read by two transforms
	out = append(out, sharedScenarios()...)
	// 8-bit and 16-bit entry points meeting at first use
	out = append(out, scenario{"srgb/first 8-bit vs 16-bit", par(
		func() string { return f32(srgb.From8Bit(200)) + fmt.Sprint(srgb.To8Bit(0.5)) },
		func() string { return f32(srgb.From16Bit(51400)) },
		func() string { return fmt.Sprint(srgb.To16Bit(0.5)) })})
	// many goroutines at first use, only for the free-running -race pass
	for _, n := range []int{16, 64} {
		var ts []func() string
		for i := 0; i < n; i++ {
			i := i
			c := coders[i%len(coders)]
			switch (i / len(coders)) % 5 {
			case 0:
				ts = append(ts, func() string { return f32(c.from16(uint16(i * 1000))) })
			case 1:
				ts = append(ts, func() string { return fmt.Sprint(c.to16(float32(i) / 64)) })
			case 2:
				ts = append(ts, func() string { return fmt.Sprint(c.lin(color.NRGBA64{R: uint16(i * 900), G: 5, B: 60000, A: 65535})) })
			case 3:
				ts = append(ts, func() string { return fmt.Sprint(c.enc(color.RGBA64{R: uint16(i * 900), G: 5, B: 60000, A: 65535})) })
			default:
				ts = append(ts, func() string { return imgs[i%len(imgs)].run(2 + i%3) })
			}
		}
		out = append(out, scenario{fmt.Sprintf("free/%d goroutines at first use, all spaces", n), ts})
	}
	// colorimetry and profile parsing from two goroutines: anything memoised there
	// (matrices keyed on part of their input, parsed profiles keyed by ID) shows
	// as a wrong value under some interleaving
	xyyp := func(x, y, yy float32) ciexyy.Color { return ciexyy.Color{X: x, Y: y, YY: yy} }
	convert := func(c color.NRGBA, toPro bool) func() string {
		return func() string {
			if toPro {
				in, a := srgb.ColorFromNRGBA(c)
				ad := ciexyz.AdaptBetweenXYYWhitePoints(srgb.StandardWhitePoint, prophotorgb.StandardWhitePoint)
				return fmt.Sprint(prophotorgb.ColorFromXYZ(ad.Apply(in.ToXYZ())).ToNRGBA(a))
			}
			in, a := prophotorgb.ColorFromNRGBA(c)
			ad := ciexyz.AdaptBetweenXYYWhitePoints(prophotorgb.StandardWhitePoint, srgb.StandardWhitePoint)
			return fmt.Sprint(srgb.ColorFromXYZ(ad.Apply(in.ToXYZ())).ToNRGBA(a))
		}
	}
	iccWithID := func(flags, intent byte) []byte {
		p := make([]byte, 128)
		p[3], p[8] = 132, 4
		copy(p[36:], "acsp")
		p[47], p[67] = flags, intent
		for i := 84; i < 100; i++ {
			p[i] = byte(i)
		}
		return append(p, 0, 0, 0, 0)
	}
	iccJunk := func(longer bool) []byte {
		p := make([]byte, 128)
		p[3], p[8] = 200, 4
		copy(p[36:], "bad!")
		p = append(p, 0, 0, 0, 9) // nine tags announced, two present
		p = append(p, []byte("desc\x00\x00\x01\x00\x00\x00\x00\x10cprt\x00\x00\x01\x10\x00\x00\x00\x10")...)
		if longer {
			p = append(p, 1, 2, 3, 4, 5, 6, 7)
		}
		return p
	}
	readICC := func(b []byte) func() string {
		return func() string {
			pr, err := icc.NewProfileReader(bytes.NewReader(b)).ReadProfile()
			if err != nil {
				return "err " + err.Error()
			}
			return fmt.Sprintf("%+v", pr.Header)
		}
	}
	out = append(out,
		scenario{"ciexyz/two primaries matrices, same chromaticities, different white luminance", par(
			func() string {
				return fmt.Sprint(ciexyz.TransformToXYZForXYYPrimaries(xyyp(0.64, 0.33, 1), xyyp(0.3, 0.6, 1), xyyp(0.15, 0.06, 1), xyyp(0.3127, 0.329, 1)))
			},
			func() string {
				return fmt.Sprint(ciexyz.TransformFromXYZForXYYPrimaries(xyyp(0.64, 0.33, 1), xyyp(0.3, 0.6, 1), xyyp(0.15, 0.06, 1), xyyp(0.3127, 0.329, 0.5)))
			})},
		scenario{"ciexyz/Lab both ways", par(
			func() string { return fmt.Sprint(ciexyz.Color{X: 0.2, Y: 0.3, Z: 0.1}.ToLAB(ciexyz.D50)) },
			func() string { return fmt.Sprint(ciexyz.ColorFromLAB(cielab.Color{L: 50, A: 20, B: -30}, ciexyz.D65)) })},
		scenario{"ciexyz/two ToLAB with different reference whites", par(
			func() string { return fmt.Sprint(ciexyz.Color{X: 0.2, Y: 0.3, Z: 0.1}.ToLAB(ciexyz.D50)) },
			func() string { return fmt.Sprint(ciexyz.Color{X: 0.4361, Y: 0.2225, Z: 0.0139}.ToLAB(ciexyz.D65)) })},
		scenario{"ciexyz/two ColorFromLAB with different reference whites", par(
			func() string { return fmt.Sprint(ciexyz.ColorFromLAB(cielab.Color{L: 50, A: 20, B: -30}, ciexyz.D65)) },
			func() string { return fmt.Sprint(ciexyz.ColorFromLAB(cielab.Color{L: 70, A: -40, B: 25}, ciexyz.D50)) })},
		scenario{"ciexyz/two adaptations between the same pair of white points", par(
			func() string {
				return fmt.Sprint(ciexyz.AdaptBetweenXYYWhitePoints(ciexyy.D65, ciexyy.D50).Apply(ciexyz.Color{X: 0.3, Y: 0.4, Z: 0.5}))
			},
			func() string {
				return fmt.Sprint(ciexyz.AdaptBetweenXYYWhitePoints(ciexyy.D65, ciexyy.D50).Apply(ciexyz.Color{X: 0.3, Y: 0.4, Z: 0.5}))
			},
			func() string {
				return fmt.Sprint(ciexyz.AdaptBetweenXYZWhitePoints(ciexyz.D65, ciexyz.D50).Apply(ciexyz.Color{X: 0.1, Y: 0.2, Z: 0.3}))
			})},
		scenario{"convert/two conversions in the same direction", par(convert(color.NRGBA{R: 200, G: 100, B: 50, A: 255}, true), convert(color.NRGBA{R: 20, G: 200, B: 90, A: 128}, true))},
		scenario{"convert/srgb->prophoto vs prophoto->srgb", par(convert(color.NRGBA{R: 200, G: 100, B: 50, A: 255}, true), convert(color.NRGBA{R: 20, G: 200, B: 90, A: 128}, false))},
		scenario{"icc/two ReadProfile, same profile ID, different flags and intent", par(readICC(iccWithID(1, 0)), readICC(iccWithID(2, 3)))},
		scenario{"icc/ReadProfile of junk: wrong signature and a tag table cut short", par(readICC(iccJunk(false)))},
		scenario{"icc/two ReadProfile of junk", par(readICC(iccJunk(false)), readICC(iccJunk(true)))},
	)
	// larger workloads, only for the free-running -race pass (name prefix "free/")
	bigLin := func(name string, f func(dst *image.RGBA64, src image.Image, p int), p int) scenario {
		return scenario{fmt.Sprintf("free/%s 100x120 parallelism %d", name, p), par(func() string {
			src := image.NewRGBA64(image.Rect(0, 0, 100, 120))
			fillPix(src.Pix, 5)
			d := image.NewRGBA64(image.Rect(0, 0, 100, 120))
			f(d, src, p)
			return pixString(d.Pix[:64])
		})}
	}
	out = append(out,
		scenario{"free/linear.TransformImageColor 40x40 parallelism 8 and 13", par(func() string { return shaped(40, 40, 8, false) + shaped(40, 40, 13, true) })},
		scenario{"free/prism.ConvertImageTo* 35 and 50 rows parallelism 4 and 7", par(func() string {
			a := prism.ConvertImageToRGBA64(tallSrc("NRGBA", 35), 4)
			b := prism.ConvertImageToNRGBA(tallSrc("YCbCr", 50), 7)
			c := prism.ConvertImageToRGBA(tallSrc("RGBA64", 33), 16)
			return pixString(a.Pix) + pixString(b.Pix) + pixString(c.Pix)
		})},
		bigLin("srgb.LineariseImage", func(d *image.RGBA64, s image.Image, p int) { srgb.LineariseImage(d, s, p) }, 4),
		bigLin("adobergb.LineariseImage", func(d *image.RGBA64, s image.Image, p int) { adobergb.LineariseImage(d, s, p) }, 4),
		bigLin("prophotorgb.EncodeImage", func(d *image.RGBA64, s image.Image, p int) { prophotorgb.EncodeImage(d, s, p) }, 7),
		bigLin("displayp3.EncodeImage", func(d *image.RGBA64, s image.Image, p int) { displayp3.EncodeImage(d, s, p) }, 3),
	)
	return out
}

func sharedScenarios() []scenario {
	withProfile := func(data []byte) []byte {
		// JPEG with a one-segment ICC profile
		b := []byte("\xff\xd8\xff\xe2")
		n := 2 + 14 + len(data)
		b = append(b, byte(n>>8), byte(n))
		b = append(b, []byte("ICC_PROFILE\x00\x01\x01")...)
		b = append(b, data...)
		return append(b, []byte("\xff\xc0\x00\x11\x08\x00\x20\x00\x30\x03\x01\x22\x00\x02\x11\x01\x03\x11\x01\xff\xda\x00\x0c\x03\x01\x00\x02\x11\x03\x11\x00\x3f\x00\x00")...)
	}
	// minimal v4 profile: header, one tag (desc -> mluc with two records)
	prof := make([]byte, 128)
	prof[8] = 4
	copy(prof[36:], "acsp")
	tag := []byte("mluc\x00\x00\x00\x00\x00\x00\x00\x02\x00\x00\x00\x0c" + "frFR\x00\x00\x00\x06\x00\x00\x00\x28" + "enUS\x00\x00\x00\x08\x00\x00\x00\x2e")
	tag = append(tag, []byte("\x00N\x00o\x00m\x00N\x00a\x00m\x00e")...)
	prof = append(prof, 0, 0, 0, 1)
	prof = append(prof, []byte("desc\x00\x00\x00\x90")...)
	prof = append(prof, byte(len(tag)>>24), byte(len(tag)>>16), byte(len(tag)>>8), byte(len(tag)))
	prof = append(prof, tag...)
	prof[0], prof[1], prof[2], prof[3] = byte(len(prof)>>24), byte(len(prof)>>16), byte(len(prof)>>8), byte(len(prof))
	file := withProfile(prof)
	var md *meta.Data
	var pr interface{ Description() (string, error) }
	setup := func() {
		md, _, _ = jpegmeta.Load(bytes.NewReader(file))
		p, _ := md.ICCProfile()
		pr = p
	}
	useMD := func() string {
		d, derr := md.ICCProfileData()
		p, perr := md.ICCProfile()
		desc := ""
		if p != nil {
			desc, _ = p.Description()
		}
		return fmt.Sprintf("%d/%v/%v/%q", len(d), derr, perr, desc)
	}
	usePR := func() string {
		d, err := pr.Description()
		return fmt.Sprintf("%q/%v", d, err)
	}
	var src *image.NRGBA
	mk := func() {
		src = image.NewNRGBA(image.Rect(0, 0, 3, 2))
		fillPix(src.Pix, 6)
	}
	setups["shared/one meta.Data used by two goroutines"] = setup
	setups["shared/one icc.Profile described by two goroutines"] = setup
	setups["shared/one source image, two transforms"] = mk
	return []scenario{
		{"shared/one meta.Data used by two goroutines", []func() string{useMD, useMD}},
		{"shared/one icc.Profile described by two goroutines", []func() string{usePR, usePR}},
		{"shared/one source image, two transforms", []func() string{
			func() string {
				d := image.NewRGBA64(src.Rect)
				srgb.LineariseImage(d, src, 2)
				return pixString(d.Pix)
			},
			func() string {
				d := image.NewNRGBA(src.Rect)
				adobergb.EncodeImage(d, src, 2)
				return pixString(d.Pix)
			}}},
	}
}

// runThreads is the scenario body: spawn one managed goroutine per thread
// function, join them, return the results.
func runThreads(sc *scenario, results []string) {
	if len(sc.threads) == 1 {
		results[0] = sc.threads[0]()
		return
	}
	// free-running mode: hold the goroutines at a gate until all are started, so
	// that their first calls really meet
	var gate chan struct{}
	if !vrt.Active() {
		gate = make(chan struct{})
	}
	var wg vsync.WaitGroup
	wg.Add(len(sc.threads))
	for i := range sc.threads {
		i := i
		vrt.Go(func() {
			defer wg.Done()
			if gate != nil {
				<-gate
			}
			results[i] = sc.threads[i]()
		})
	}
	if gate != nil {
		close(gate)
	}
	wg.Wait()
}

// settle waits (up to 5 s) for goroutines the library started during an
// unscheduled call to finish: a call that returns while its workers are still
// running would otherwise have them run into the next, scheduled execution.
func settle(base int) {
	for i := 0; i < 5000 && runtime.NumGoroutine() > base; i++ {
		time.Sleep(time.Millisecond)
	}
}

// fresh restores first-use package state and rebuilds the scenario's shared objects.
func fresh(sc *scenario) {
	if !strings.HasPrefix(sc.name, "litmus/") { // litmus programs do not touch the library
		resetAll()
	}
	if f := setups[sc.name]; f != nil {
		f()
	}
}

type violation struct {
	Kind     string   `json:"kind"`
	Desc     string   `json:"desc"`
	Choices  []int    `json:"choices"`
	Schedule string   `json:"schedule"`
	Stable   bool     `json:"reproduced_5x"`
	Got      []string `json:"got,omitempty"`
	Want     []string `json:"want,omitempty"`
}

type report struct {
	Scenario     string      `json:"scenario"`
	Threads      int         `json:"threads"`
	Bound        int         `json:"preemption_bound"`
	Executions   int64       `json:"executions"`
	States       int64       `json:"decision_points"`
	Transitions  int64       `json:"thread_switches"`
	SyncOps      int64       `json:"sync_ops"`
	MemOps       int64       `json:"mem_ops"`
	MaxDecisions int         `json:"max_decisions_in_one_execution"`
	Outcomes     int         `json:"distinct_outcomes"`
	Schedules    int         `json:"distinct_schedules"`
	Exhaustive   bool        `json:"exhaustive_within_bound"`
	All          bool        `json:"all_interleavings"`
	MaxBound     int         `json:"requested_bound"`
	Passes       []pass      `json:"passes"`
	HBStates     int         `json:"distinct_happens_before_states"`
	Pruned       int64       `json:"subtrees_pruned_as_already_visited"`
	Truncated    int64       `json:"executions_with_more_than_20000_decision_points"`
	Violations   []violation `json:"violations"`
	Sample       string      `json:"sample_schedule"`
	WallS        float64     `json:"wall_s"`
}

// pass is one exploration with a fixed preemption bound.
type pass struct {
	Bound      int   `json:"preemption_bound"`
	Executions int64 `json:"executions"`
	HBStates   int   `json:"distinct_happens_before_states"`
	Pruned     int64 `json:"subtrees_pruned_as_already_visited"`
	BoundCuts  int64 `json:"alternatives_not_taken_because_of_the_bound"`
	Complete   bool  `json:"complete"`
}

func switches(sig string) int64 {
	n := int64(0)
	for i := 1; i < len(sig); i++ {
		if sig[i] != sig[i-1] {
			n++
		}
	}
	return n
}

// explore runs iterative context bounding: all schedules with at most minBound
// preemptions (the guaranteed part: it only stops at a hard deadline of 20x the
// budget), then minBound+1, +2, ... while the budget lasts. A pass in which the
// bound never stopped an alternative from being taken has covered ALL
// interleavings and ends the iteration. When a pass finds a violation the
// bounds below it are searched, smallest first, so that the counterexample
// reported has the fewest preemptions. Bound in the report is the highest
// bound whose pass completed (-1 if none did).
func explore(sc *scenario, minBound int, budget time.Duration) report {
	start := time.Now()
	soft := budget
	rep := report{Scenario: sc.name, Threads: len(sc.threads), Bound: -1, MaxBound: minBound}
	// sequential reference: each thread function executed alone, fresh state each
	want := make([]string, len(sc.threads))
	if w, ok := wants[sc.name]; ok {
		copy(want, w) // threads that cannot run alone (litmus programs): expectation given
	} else {
		base := runtime.NumGoroutine()
		for i := range sc.threads {
			fresh(sc)
			want[i] = sc.threads[i]()
			settle(base)
		}
	}
	outcomes := map[string]bool{}
	sigs := map[string]bool{}
	seenViolation := map[string]bool{}
	runOnce := func(prefix []int) (vrt.Result, []string) {
		fresh(sc)
		results := make([]string, len(sc.threads))
		res := vrt.Run(prefix, 2000000, func() {
			if f := inits[sc.name]; f != nil {
				f()
			}
			runThreads(sc, results)
		})
		return res, results
	}
	judge := func(res vrt.Result, results []string) (kind, desc string) {
		if res.Failure != "" {
			return "failure", res.Failure
		}
		if len(res.Races) > 0 {
			return "race", res.Races[0]
		}
		for i := range want {
			if results[i] != want[i] {
				return "value", fmt.Sprintf("goroutine %d returned %.200s, executed alone it returns %.200s", i+1, results[i], want[i])
			}
		}
		return "", ""
	}
	// visited: happens-before state -> fewest preemptions it was expanded with.
	// A state reached again with at least as many preemptions used has had every
	// continuation within the bound explored already (depth-first order), so the
	// search does not branch there again. VERIF_C11_NOPRUNE=1 turns this off.
	prune := os.Getenv("VERIF_C11_NOPRUNE") == ""
	var visited map[[2]uint64]int16
	var bound int
	var cur *pass
	var rec func(prefix []int)
	rec = func(prefix []int) {
		if len(rep.Violations) >= 5 {
			return
		}
		if time.Since(start) > budget {
			cur.Complete = false
			return
		}
		cur.Executions++
		res, results := runOnce(prefix)
		if res.Truncated {
			rep.Truncated++
			cur.Complete = false
		}
		rep.Executions++
		rep.States += int64(len(res.Points))
		rep.Transitions += switches(res.Signature)
		rep.SyncOps += int64(res.SyncOps)
		rep.MemOps += int64(res.MemOps)
		if len(res.Points) > rep.MaxDecisions {
			rep.MaxDecisions = len(res.Points)
		}
		if len(sigs) < 200000 {
			sigs[res.Signature] = true
		}
		outcomes[strings.Join(results, "|")+"#"+strings.Join(res.Races, ";")+res.Failure] = true
		if rep.Sample == "" && len(prefix) >= 2 {
			rep.Sample = fmt.Sprintf("choices %v -> running thread at each step %s", prefix, res.Signature)
		}
		if kind, desc := judge(res, results); kind != "" && !seenViolation[kind+desc] {
			seenViolation[kind+desc] = true
			v := violation{Kind: kind, Desc: desc, Choices: append([]int{}, prefix...), Schedule: res.Signature, Stable: true, Got: results, Want: want}
			for k := 0; k < 4; k++ {
				r2, res2 := runOnce(prefix)
				k2, d2 := judge(r2, res2)
				if k2 != kind || d2 != desc || r2.Signature != res.Signature {
					v.Stable = false
				}
			}
			rep.Violations = append(rep.Violations, v)
		}
		if res.Failure != "" && strings.HasPrefix(res.Failure, "replay divergence") {
			return
		}
		for i := len(prefix); i < len(res.Points); i++ {
			if i&1023 == 1023 && time.Since(start) > budget {
				cur.Complete = false
				break
			}
			p := res.Points[i]
			if prune {
				c, ok := visited[p.Key]
				if ok && int(c) <= p.Preemptions {
					rep.Pruned++
					cur.Pruned++
					break
				}
				if ok || len(visited) < 4000000 {
					visited[p.Key] = int16(p.Preemptions)
				}
			}
			for alt := 1; alt < len(p.Enabled); alt++ {
				cost := p.Preemptions
				if p.RunningStillEnabled {
					cost++
				}
				if cost > bound {
					cur.BoundCuts++
					continue
				}
				np := make([]int, i+1)
				for k := 0; k < i; k++ {
					np[k] = res.Points[k].Choice
				}
				np[i] = alt
				rec(np)
			}
		}
	}
	// bounds tried: g, g+1, g+2, g+3, then the step doubles (each pass starts
	// from scratch and contains the previous one, so doubling keeps the total
	// within a small factor of the last pass)
	step := 1
	for bound = minBound; ; bound += step {
		if bound >= minBound+3 {
			step *= 2
		}
		budget = soft
		if bound <= minBound {
			budget = 20 * soft
			if budget > 1500*time.Second {
				budget = 1500 * time.Second
			}
		}
		if time.Since(start) > budget {
			break
		}
		visited = map[[2]uint64]int16{}
		rep.Passes = append(rep.Passes, pass{Bound: bound, Complete: true})
		cur = &rep.Passes[len(rep.Passes)-1]
		rec(nil)
		cur.HBStates = len(visited)
		rep.HBStates = len(visited)
		if len(rep.Violations) > 0 {
			found, top := rep.Violations, bound
			for b := 0; b < top; b++ {
				bound, visited, rep.Violations = b, map[[2]uint64]int16{}, nil
				seenViolation = map[string]bool{}
				rep.Passes = append(rep.Passes, pass{Bound: b, Complete: true})
				cur = &rep.Passes[len(rep.Passes)-1]
				rec(nil)
				cur.HBStates = len(visited)
				if len(rep.Violations) > 0 || !cur.Complete {
					break
				}
			}
			if len(rep.Violations) == 0 {
				rep.Violations = found
			}
			break
		}
		if !cur.Complete {
			break
		}
		rep.Bound = bound
		if cur.BoundCuts == 0 {
			rep.All = true
			break
		}
	}
	rep.Exhaustive = rep.All || rep.Bound >= minBound
	rep.Outcomes = len(outcomes)
	rep.Schedules = len(sigs)
	rep.WallS = time.Since(start).Seconds()
	return rep
}

func main() {
	scs := scenarios()
	if len(os.Args) < 2 {
		fmt.Fprintln(os.Stderr, "usage: harness list | explore <scenario> <guaranteed bound> <budget_s> | replay <scenario> <choices> | free <scenario> <iterations>")
		os.Exit(2)
	}
	find := func(name string) *scenario {
		for i := range scs {
			if scs[i].name == name {
				return &scs[i]
			}
		}
		for _, l := range litmusTests() {
			if "litmus/"+l.name == name {
				return litmusScenario(l)
			}
		}
		fmt.Fprintln(os.Stderr, "unknown scenario", name)
		os.Exit(2)
		return nil
	}
	switch os.Args[1] {
	case "list":
		var names []string
		for _, s := range scs {
			names = append(names, fmt.Sprintf("%d\t%s", len(s.threads), s.name))
		}
		sort.Strings(names)
		fmt.Println(strings.Join(names, "\n"))
	case "explore":
		sc := find(os.Args[2])
		bound, _ := strconv.Atoi(os.Args[3])
		budget, _ := strconv.Atoi(os.Args[4])
		rep := explore(sc, bound, time.Duration(budget)*time.Second)
		b, _ := json.Marshal(rep)
		fmt.Println(string(b))
	case "selftest":
		selftest()
	case "replay":
		// harness replay <scenario> <c0,c1,...>: one execution under the recorded choices
		sc := find(os.Args[2])
		var prefix []int
		for _, f := range strings.Split(strings.Trim(os.Args[3], "[] "), ",") {
			if f = strings.TrimSpace(f); f != "" {
				c, _ := strconv.Atoi(f)
				prefix = append(prefix, c)
			}
		}
		want := make([]string, len(sc.threads))
		for i := range sc.threads {
			fresh(sc)
			want[i] = sc.threads[i]()
		}
		fresh(sc)
		results := make([]string, len(sc.threads))
		res := vrt.Run(prefix, 2000000, func() { runThreads(sc, results) })
		fmt.Printf("schedule (running goroutine per step): %s\n", res.Signature)
		bad := false
		if res.Failure != "" {
			fmt.Println("failure:", res.Failure)
			bad = true
		}
		for _, r := range res.Races {
			fmt.Println(r)
			bad = true
		}
		for i := range want {
			if results[i] != want[i] {
				fmt.Printf("goroutine %d returned %.300s; executed alone it returns %.300s\n", i+1, results[i], want[i])
				bad = true
			}
		}
		if bad {
			os.Exit(1)
		}
		fmt.Println("no violation under this schedule")
	case "free":
		sc := find(os.Args[2])
		iters, _ := strconv.Atoi(os.Args[3])
		want := make([]string, len(sc.threads))
		for i := range sc.threads {
			fresh(sc)
			want[i] = sc.threads[i]()
		}
		for it := 0; it < iters; it++ {
			fresh(sc)
			results := make([]string, len(sc.threads))
			runThreads(sc, results)
			for i := range want {
				if results[i] != want[i] {
					fmt.Printf("VALUE-MISMATCH goroutine %d: %.200s vs %.200s\n", i+1, results[i], want[i])
					os.Exit(3)
				}
			}
		}
		fmt.Println("free-ok")
	}
}
