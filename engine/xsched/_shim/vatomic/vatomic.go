//go:build go1.18

// Package vatomic replaces sync/atomic in overlay-instrumented sources. Every
// operation is a scheduling point. Per the Go memory model atomics are
// sequentially consistent and an atomic operation that observes the effect of
// another is synchronised after it: a store publishes the storing goroutine's
// history at that address (replacing what was published there), a load
// acquires it, a read-modify-write does both. Outside an exploration every
// function is the real one.
package vatomic

import (
	"sync/atomic"
	"unsafe"

	"github.com/mandykoh/prism/zverif/vrt"
)

func load(p unsafe.Pointer, size uintptr, what string) {
	vrt.SyncPoint(what)
	o := vrt.ObjAt(p)
	vrt.SpinCheck(o) // may park a spin-waiting goroutine until the next store
	vrt.AtomicAccess(p, size, false)
	vrt.Acquire(o)
}

func store(p unsafe.Pointer, size uintptr, what string) {
	vrt.SyncPoint(what)
	vrt.AtomicAccess(p, size, true)
	vrt.Publish(vrt.ObjAt(p))
}

func rmw(p unsafe.Pointer, size uintptr, what string) {
	vrt.SyncPoint(what)
	vrt.AtomicAccess(p, size, true)
	o := vrt.ObjAt(p)
	vrt.Acquire(o)
	vrt.Publish(o)
}

func LoadInt32(addr *int32) int32 {
	if vrt.Active() {
		load(unsafe.Pointer(addr), unsafe.Sizeof(*addr), "atomic.Load")
	}
	return atomic.LoadInt32(addr)
}

func StoreInt32(addr *int32, val int32) {
	if vrt.Active() {
		store(unsafe.Pointer(addr), unsafe.Sizeof(*addr), "atomic.Store")
	}
	atomic.StoreInt32(addr, val)
	vrt.Yield("after atomic store")
}

func AddInt32(addr *int32, delta int32) int32 {
	if vrt.Active() {
		rmw(unsafe.Pointer(addr), unsafe.Sizeof(*addr), "atomic.Add")
	}
	return atomic.AddInt32(addr, delta)
}

func SwapInt32(addr *int32, new int32) int32 {
	if vrt.Active() {
		rmw(unsafe.Pointer(addr), unsafe.Sizeof(*addr), "atomic.Swap")
	}
	return atomic.SwapInt32(addr, new)
}

func CompareAndSwapInt32(addr *int32, old, new int32) bool {
	if vrt.Active() {
		// a failed CAS is a load; a successful one a read-modify-write
		vrt.SyncPoint("atomic.CompareAndSwap")
		vrt.AtomicAccess(unsafe.Pointer(addr), unsafe.Sizeof(*addr), true)
		o := vrt.ObjAt(unsafe.Pointer(addr))
		vrt.Acquire(o)
		ok := atomic.CompareAndSwapInt32(addr, old, new)
		if ok {
			vrt.Publish(o)
		}
		vrt.Observe(b2u(ok))
		return ok
	}
	return atomic.CompareAndSwapInt32(addr, old, new)
}

func LoadInt64(addr *int64) int64 {
	if vrt.Active() {
		load(unsafe.Pointer(addr), unsafe.Sizeof(*addr), "atomic.Load")
	}
	return atomic.LoadInt64(addr)
}

func StoreInt64(addr *int64, val int64) {
	if vrt.Active() {
		store(unsafe.Pointer(addr), unsafe.Sizeof(*addr), "atomic.Store")
	}
	atomic.StoreInt64(addr, val)
	vrt.Yield("after atomic store")
}

func AddInt64(addr *int64, delta int64) int64 {
	if vrt.Active() {
		rmw(unsafe.Pointer(addr), unsafe.Sizeof(*addr), "atomic.Add")
	}
	return atomic.AddInt64(addr, delta)
}

func SwapInt64(addr *int64, new int64) int64 {
	if vrt.Active() {
		rmw(unsafe.Pointer(addr), unsafe.Sizeof(*addr), "atomic.Swap")
	}
	return atomic.SwapInt64(addr, new)
}

func CompareAndSwapInt64(addr *int64, old, new int64) bool {
	if vrt.Active() {
		// a failed CAS is a load; a successful one a read-modify-write
		vrt.SyncPoint("atomic.CompareAndSwap")
		vrt.AtomicAccess(unsafe.Pointer(addr), unsafe.Sizeof(*addr), true)
		o := vrt.ObjAt(unsafe.Pointer(addr))
		vrt.Acquire(o)
		ok := atomic.CompareAndSwapInt64(addr, old, new)
		if ok {
			vrt.Publish(o)
		}
		vrt.Observe(b2u(ok))
		return ok
	}
	return atomic.CompareAndSwapInt64(addr, old, new)
}

func LoadUint32(addr *uint32) uint32 {
	if vrt.Active() {
		load(unsafe.Pointer(addr), unsafe.Sizeof(*addr), "atomic.Load")
	}
	return atomic.LoadUint32(addr)
}

func StoreUint32(addr *uint32, val uint32) {
	if vrt.Active() {
		store(unsafe.Pointer(addr), unsafe.Sizeof(*addr), "atomic.Store")
	}
	atomic.StoreUint32(addr, val)
	vrt.Yield("after atomic store")
}

func AddUint32(addr *uint32, delta uint32) uint32 {
	if vrt.Active() {
		rmw(unsafe.Pointer(addr), unsafe.Sizeof(*addr), "atomic.Add")
	}
	return atomic.AddUint32(addr, delta)
}

func SwapUint32(addr *uint32, new uint32) uint32 {
	if vrt.Active() {
		rmw(unsafe.Pointer(addr), unsafe.Sizeof(*addr), "atomic.Swap")
	}
	return atomic.SwapUint32(addr, new)
}

func CompareAndSwapUint32(addr *uint32, old, new uint32) bool {
	if vrt.Active() {
		// a failed CAS is a load; a successful one a read-modify-write
		vrt.SyncPoint("atomic.CompareAndSwap")
		vrt.AtomicAccess(unsafe.Pointer(addr), unsafe.Sizeof(*addr), true)
		o := vrt.ObjAt(unsafe.Pointer(addr))
		vrt.Acquire(o)
		ok := atomic.CompareAndSwapUint32(addr, old, new)
		if ok {
			vrt.Publish(o)
		}
		vrt.Observe(b2u(ok))
		return ok
	}
	return atomic.CompareAndSwapUint32(addr, old, new)
}

func LoadUint64(addr *uint64) uint64 {
	if vrt.Active() {
		load(unsafe.Pointer(addr), unsafe.Sizeof(*addr), "atomic.Load")
	}
	return atomic.LoadUint64(addr)
}

func StoreUint64(addr *uint64, val uint64) {
	if vrt.Active() {
		store(unsafe.Pointer(addr), unsafe.Sizeof(*addr), "atomic.Store")
	}
	atomic.StoreUint64(addr, val)
	vrt.Yield("after atomic store")
}

func AddUint64(addr *uint64, delta uint64) uint64 {
	if vrt.Active() {
		rmw(unsafe.Pointer(addr), unsafe.Sizeof(*addr), "atomic.Add")
	}
	return atomic.AddUint64(addr, delta)
}

func SwapUint64(addr *uint64, new uint64) uint64 {
	if vrt.Active() {
		rmw(unsafe.Pointer(addr), unsafe.Sizeof(*addr), "atomic.Swap")
	}
	return atomic.SwapUint64(addr, new)
}

func CompareAndSwapUint64(addr *uint64, old, new uint64) bool {
	if vrt.Active() {
		// a failed CAS is a load; a successful one a read-modify-write
		vrt.SyncPoint("atomic.CompareAndSwap")
		vrt.AtomicAccess(unsafe.Pointer(addr), unsafe.Sizeof(*addr), true)
		o := vrt.ObjAt(unsafe.Pointer(addr))
		vrt.Acquire(o)
		ok := atomic.CompareAndSwapUint64(addr, old, new)
		if ok {
			vrt.Publish(o)
		}
		vrt.Observe(b2u(ok))
		return ok
	}
	return atomic.CompareAndSwapUint64(addr, old, new)
}

func LoadUintptr(addr *uintptr) uintptr {
	if vrt.Active() {
		load(unsafe.Pointer(addr), unsafe.Sizeof(*addr), "atomic.Load")
	}
	return atomic.LoadUintptr(addr)
}

func StoreUintptr(addr *uintptr, val uintptr) {
	if vrt.Active() {
		store(unsafe.Pointer(addr), unsafe.Sizeof(*addr), "atomic.Store")
	}
	atomic.StoreUintptr(addr, val)
	vrt.Yield("after atomic store")
}

func AddUintptr(addr *uintptr, delta uintptr) uintptr {
	if vrt.Active() {
		rmw(unsafe.Pointer(addr), unsafe.Sizeof(*addr), "atomic.Add")
	}
	return atomic.AddUintptr(addr, delta)
}

func SwapUintptr(addr *uintptr, new uintptr) uintptr {
	if vrt.Active() {
		rmw(unsafe.Pointer(addr), unsafe.Sizeof(*addr), "atomic.Swap")
	}
	return atomic.SwapUintptr(addr, new)
}

func CompareAndSwapUintptr(addr *uintptr, old, new uintptr) bool {
	if vrt.Active() {
		// a failed CAS is a load; a successful one a read-modify-write
		vrt.SyncPoint("atomic.CompareAndSwap")
		vrt.AtomicAccess(unsafe.Pointer(addr), unsafe.Sizeof(*addr), true)
		o := vrt.ObjAt(unsafe.Pointer(addr))
		vrt.Acquire(o)
		ok := atomic.CompareAndSwapUintptr(addr, old, new)
		if ok {
			vrt.Publish(o)
		}
		vrt.Observe(b2u(ok))
		return ok
	}
	return atomic.CompareAndSwapUintptr(addr, old, new)
}

func b2u(b bool) uint64 {
	if b {
		return 1
	}
	return 0
}

func LoadPointer(addr *unsafe.Pointer) unsafe.Pointer {
	if vrt.Active() {
		load(unsafe.Pointer(addr), unsafe.Sizeof(*addr), "atomic.LoadPointer")
	}
	return atomic.LoadPointer(addr)
}

func StorePointer(addr *unsafe.Pointer, val unsafe.Pointer) {
	if vrt.Active() {
		store(unsafe.Pointer(addr), unsafe.Sizeof(*addr), "atomic.StorePointer")
	}
	atomic.StorePointer(addr, val)
	vrt.Yield("after atomic store")
}

func SwapPointer(addr *unsafe.Pointer, new unsafe.Pointer) unsafe.Pointer {
	if vrt.Active() {
		rmw(unsafe.Pointer(addr), unsafe.Sizeof(*addr), "atomic.SwapPointer")
	}
	return atomic.SwapPointer(addr, new)
}

func CompareAndSwapPointer(addr *unsafe.Pointer, old, new unsafe.Pointer) bool {
	if vrt.Active() {
		vrt.SyncPoint("atomic.CompareAndSwapPointer")
		vrt.AtomicAccess(unsafe.Pointer(addr), unsafe.Sizeof(*addr), true)
		o := vrt.ObjAt(unsafe.Pointer(addr))
		vrt.Acquire(o)
		ok := atomic.CompareAndSwapPointer(addr, old, new)
		if ok {
			vrt.Publish(o)
		}
		vrt.Observe(b2u(ok))
		return ok
	}
	return atomic.CompareAndSwapPointer(addr, old, new)
}

// Value mirrors atomic.Value.
type Value struct{ v atomic.Value }

func (v *Value) Load() any {
	if vrt.Active() {
		load(unsafe.Pointer(v), unsafe.Sizeof(*v), "atomic.Value.Load")
	}
	return v.v.Load()
}

func (v *Value) Store(val any) {
	if vrt.Active() {
		store(unsafe.Pointer(v), unsafe.Sizeof(*v), "atomic.Value.Store")
	}
	v.v.Store(val)
	vrt.Yield("after atomic.Value.Store")
}

func (v *Value) Swap(new any) any {
	if vrt.Active() {
		rmw(unsafe.Pointer(v), unsafe.Sizeof(*v), "atomic.Value.Swap")
	}
	return v.v.Swap(new)
}

func (v *Value) CompareAndSwap(old, new any) bool {
	if vrt.Active() {
		vrt.SyncPoint("atomic.Value.CompareAndSwap")
		vrt.AtomicAccess(unsafe.Pointer(v), unsafe.Sizeof(*v), true)
		o := vrt.ObjAt(unsafe.Pointer(v))
		vrt.Acquire(o)
		ok := v.v.CompareAndSwap(old, new)
		if ok {
			vrt.Publish(o)
		}
		vrt.Observe(b2u(ok))
		return ok
	}
	return v.v.CompareAndSwap(old, new)
}

// Bool mirrors atomic.Bool.
type Bool struct{ v uint32 }

func (x *Bool) Load() bool   { return LoadUint32(&x.v) != 0 }
func (x *Bool) Store(b bool) { StoreUint32(&x.v, uint32(b2u(b))) }
func (x *Bool) Swap(b bool) bool {
	return SwapUint32(&x.v, uint32(b2u(b))) != 0
}
func (x *Bool) CompareAndSwap(old, new bool) bool {
	return CompareAndSwapUint32(&x.v, uint32(b2u(old)), uint32(b2u(new)))
}

// Int32 mirrors atomic.Int32.
type Int32 struct{ v int32 }

func (x *Int32) Load() int32                        { return LoadInt32(&x.v) }
func (x *Int32) Store(v int32)                      { StoreInt32(&x.v, v) }
func (x *Int32) Add(d int32) int32                  { return AddInt32(&x.v, d) }
func (x *Int32) Swap(v int32) int32                 { return SwapInt32(&x.v, v) }
func (x *Int32) CompareAndSwap(old, new int32) bool { return CompareAndSwapInt32(&x.v, old, new) }

// Int64 mirrors atomic.Int64.
type Int64 struct{ v int64 }

func (x *Int64) Load() int64                        { return LoadInt64(&x.v) }
func (x *Int64) Store(v int64)                      { StoreInt64(&x.v, v) }
func (x *Int64) Add(d int64) int64                  { return AddInt64(&x.v, d) }
func (x *Int64) Swap(v int64) int64                 { return SwapInt64(&x.v, v) }
func (x *Int64) CompareAndSwap(old, new int64) bool { return CompareAndSwapInt64(&x.v, old, new) }

// Uint32 mirrors atomic.Uint32.
type Uint32 struct{ v uint32 }

func (x *Uint32) Load() uint32                        { return LoadUint32(&x.v) }
func (x *Uint32) Store(v uint32)                      { StoreUint32(&x.v, v) }
func (x *Uint32) Add(d uint32) uint32                 { return AddUint32(&x.v, d) }
func (x *Uint32) Swap(v uint32) uint32                { return SwapUint32(&x.v, v) }
func (x *Uint32) CompareAndSwap(old, new uint32) bool { return CompareAndSwapUint32(&x.v, old, new) }

// Uint64 mirrors atomic.Uint64.
type Uint64 struct{ v uint64 }

func (x *Uint64) Load() uint64                        { return LoadUint64(&x.v) }
func (x *Uint64) Store(v uint64)                      { StoreUint64(&x.v, v) }
func (x *Uint64) Add(d uint64) uint64                 { return AddUint64(&x.v, d) }
func (x *Uint64) Swap(v uint64) uint64                { return SwapUint64(&x.v, v) }
func (x *Uint64) CompareAndSwap(old, new uint64) bool { return CompareAndSwapUint64(&x.v, old, new) }

// Uintptr mirrors atomic.Uintptr.
type Uintptr struct{ v uintptr }

func (x *Uintptr) Load() uintptr                        { return LoadUintptr(&x.v) }
func (x *Uintptr) Store(v uintptr)                      { StoreUintptr(&x.v, v) }
func (x *Uintptr) Add(d uintptr) uintptr                { return AddUintptr(&x.v, d) }
func (x *Uintptr) Swap(v uintptr) uintptr               { return SwapUintptr(&x.v, v) }
func (x *Uintptr) CompareAndSwap(old, new uintptr) bool { return CompareAndSwapUintptr(&x.v, old, new) }
