//go:build go1.18

// Package vchan is what channel operations in overlay-instrumented sources are
// rewritten to. Under the controlled scheduler the operations go through the
// channel model in package vrt; otherwise they are the real operations.
package vchan

import (
	"reflect"
	"sync"

	"github.com/mandykoh/prism/zverif/vrt"
)

// modelled: channels created by make() in instrumented code (registered by
// Make). Any other channel - a timer's, a context's, one handed in by the
// caller - belongs to code the scheduler does not control: operations on it
// are the real ones (the exploration simply waits for them).
var (
	modelledMu sync.Mutex
	modelled   = map[uintptr]bool{}
	keep       []interface{} // registered channels stay reachable: their addresses are identities
)

// Make is make(chan T, n).
func Make[T any](n int) chan T {
	ch := make(chan T, n)
	modelledMu.Lock()
	modelled[reflect.ValueOf(ch).Pointer()] = true
	keep = append(keep, ch)
	modelledMu.Unlock()
	return ch
}

func id(ch interface{}) (ptr uintptr, capacity int, model bool) {
	v := reflect.ValueOf(ch)
	if !v.IsValid() || v.Kind() != reflect.Chan {
		return 0, 0, false
	}
	if v.IsNil() {
		return 0, 0, true // blocks for ever: the model reports that as a deadlock
	}
	modelledMu.Lock()
	ok := modelled[v.Pointer()]
	modelledMu.Unlock()
	return v.Pointer(), v.Cap(), ok
}

func realSend(ch interface{}, v interface{}) {
	cv := reflect.ValueOf(ch)
	var x reflect.Value
	if v == nil {
		x = reflect.Zero(cv.Type().Elem())
	} else {
		x = reflect.ValueOf(v)
		if x.Type() != cv.Type().Elem() {
			x = x.Convert(cv.Type().Elem())
		}
	}
	cv.Send(x)
}

// Send is ch <- v. ch is any channel type that can be sent on; v anything
// assignable to its element type (the compiler checked the original statement).
func Send(ch interface{}, v interface{}) {
	if !vrt.Active() {
		realSend(ch, v)
		return
	}
	p, c, ok := id(ch)
	if !ok {
		vrt.SyncPoint("send on a channel from outside the instrumented code")
		realSend(ch, v)
		return
	}
	vrt.ChanSend(p, c, v)
}

// Recv2 is v, ok := <-ch.
func Recv2[T any](ch <-chan T) (T, bool) {
	if !vrt.Active() {
		v, ok := <-ch
		return v, ok
	}
	p, c, model := id(ch)
	if !model {
		vrt.SyncPoint("receive on a channel from outside the instrumented code")
		v, ok := <-ch
		return v, ok
	}
	x, ok := vrt.ChanRecv(p, c)
	var zero T
	if !ok || x == nil {
		return zero, ok
	}
	if y, isT := x.(T); isT {
		return y, true
	}
	// sent as a different (assignable) static type, e.g. a named vs unnamed form
	xv := reflect.ValueOf(x)
	if xv.Type().ConvertibleTo(reflect.TypeOf(&zero).Elem()) {
		return xv.Convert(reflect.TypeOf(&zero).Elem()).Interface().(T), true
	}
	return zero, true
}

// Recv1 is <-ch.
func Recv1[T any](ch <-chan T) T {
	v, _ := Recv2(ch)
	return v
}

// Close is close(ch).
func Close(ch interface{}) {
	if !vrt.Active() {
		reflect.ValueOf(ch).Close()
		return
	}
	p, c, ok := id(ch)
	if !ok {
		reflect.ValueOf(ch).Close()
		return
	}
	vrt.ChanClose(p, c)
}

// Len is len(ch).
func Len(ch interface{}) int {
	if !vrt.Active() {
		return reflect.ValueOf(ch).Len()
	}
	p, c, ok := id(ch)
	if !ok {
		return reflect.ValueOf(ch).Len()
	}
	return vrt.ChanLen(p, c)
}
