//go:build go1.18

// Package vchan is what channel operations in overlay-instrumented sources are
// rewritten to. Under the controlled scheduler the operations go through the
// channel model in package vrt; otherwise they are the real operations.
package vchan

import (
	"reflect"

	"github.com/mandykoh/prism/zverif/vrt"
)

func id(ch interface{}) (uintptr, int) {
	v := reflect.ValueOf(ch)
	if !v.IsValid() || v.Kind() != reflect.Chan || v.IsNil() {
		return 0, 0
	}
	return v.Pointer(), v.Cap()
}

// Send is ch <- v. ch is any channel type that can be sent on; v anything
// assignable to its element type (the compiler checked the original statement).
func Send(ch interface{}, v interface{}) {
	if !vrt.Active() {
		cv := reflect.ValueOf(ch)
		var x reflect.Value
		if v == nil {
			x = reflect.Zero(cv.Type().Elem())
		} else {
			x = reflect.ValueOf(v)
			if x.Type() != cv.Type().Elem() {
				x = x.Convert(cv.Type().Elem())
			}
		}
		cv.Send(x)
		return
	}
	p, c := id(ch)
	vrt.ChanSend(p, c, v)
}

// Recv2 is v, ok := <-ch.
func Recv2[T any](ch <-chan T) (T, bool) {
	if !vrt.Active() {
		v, ok := <-ch
		return v, ok
	}
	p, c := id(ch)
	x, ok := vrt.ChanRecv(p, c)
	var zero T
	if !ok || x == nil {
		return zero, ok
	}
	if y, isT := x.(T); isT {
		return y, true
	}
	// sent as a different (assignable) static type, e.g. a named vs unnamed form
	xv := reflect.ValueOf(x)
	if xv.Type().ConvertibleTo(reflect.TypeOf(&zero).Elem()) {
		return xv.Convert(reflect.TypeOf(&zero).Elem()).Interface().(T), true
	}
	return zero, true
}

// Recv1 is <-ch.
func Recv1[T any](ch <-chan T) T {
	v, _ := Recv2(ch)
	return v
}

// Close is close(ch).
func Close(ch interface{}) {
	if !vrt.Active() {
		reflect.ValueOf(ch).Close()
		return
	}
	p, c := id(ch)
	vrt.ChanClose(p, c)
}

// Len is len(ch).
func Len(ch interface{}) int {
	if !vrt.Active() {
		return reflect.ValueOf(ch).Len()
	}
	p, c := id(ch)
	return vrt.ChanLen(p, c)
}
