//go:build go1.18

package vrt

import "unsafe"

// Channel model. The real channel is only an identity (and a capacity); all
// traffic of an exploration goes through chanModel, so that a goroutine waiting
// on a channel is parked where the scheduler can see it. Happens-before edges
// per the Go memory model: a send is synchronised before the completion of the
// receive that takes it; the close of a channel before a receive that returns
// because of it; the kth receive on a channel of capacity C before the
// completion of the (k+C)th send - modelled coarsely: every receive is ordered
// before every later send on that channel (more ordering than the language
// gives, so the race oracle may miss a pair there but never invents one).

type chanMsg struct {
	v     interface{}
	obj   *SyncObj // the sender's history
	back  *SyncObj // unbuffered: the receiver's history, acquired by the sender on completion
	taken bool
}

type chanModel struct {
	cap    int
	buf    []*chanMsg // buffered messages
	offers []*chanMsg // unbuffered: senders waiting for a receiver
	closed bool
	cls    SyncObj
	free   SyncObj // receives, acquired by later sends
}

func chanOf(ptr uintptr, capacity int) *chanModel {
	sc := s
	if sc.chans == nil {
		sc.chans = map[uintptr]*chanModel{}
	}
	c := sc.chans[ptr]
	if c == nil {
		c = &chanModel{cap: capacity}
		sc.chans[ptr] = c
		pin(unsafe.Pointer(ptr))
	}
	return c
}

// ChanSend models ch <- v.
func ChanSend(ptr uintptr, capacity int, v interface{}) {
	SyncPoint("chan send")
	if ptr == 0 {
		blockUntil("send on nil channel", func() bool { return false })
		return
	}
	c := chanOf(ptr, capacity)
	if c.closed {
		panic("send on closed channel")
	}
	m := &chanMsg{v: v, obj: &SyncObj{}}
	if c.cap > 0 {
		blockUntil("chan send (buffer full)", func() bool { return len(c.buf) < c.cap || c.closed })
		if c.closed {
			panic("send on closed channel")
		}
		Acquire(&c.free)
		Release(m.obj)
		c.buf = append(c.buf, m)
		Yield("after chan send")
		return
	}
	m.back = &SyncObj{}
	Release(m.obj)
	c.offers = append(c.offers, m)
	blockUntil("chan send (no receiver)", func() bool { return m.taken || c.closed })
	if !m.taken {
		panic("send on closed channel")
	}
	Acquire(m.back)
	Acquire(&c.free)
}

// ChanRecv models v, ok := <-ch.
func ChanRecv(ptr uintptr, capacity int) (interface{}, bool) {
	SyncPoint("chan receive")
	if ptr == 0 {
		blockUntil("receive on nil channel", func() bool { return false })
		return nil, false
	}
	c := chanOf(ptr, capacity)
	blockUntil("chan receive (empty)", func() bool { return len(c.buf) > 0 || len(c.offers) > 0 || c.closed })
	if len(c.buf) > 0 {
		m := c.buf[0]
		c.buf = c.buf[1:]
		Acquire(m.obj)
		Release(&c.free)
		return m.v, true
	}
	if len(c.offers) > 0 {
		m := c.offers[0]
		c.offers = c.offers[1:]
		Acquire(m.obj)
		Release(m.back)
		Release(&c.free)
		m.taken = true
		return m.v, true
	}
	Acquire(&c.cls)
	Observe(3)
	return nil, false
}

// ChanClose models close(ch).
func ChanClose(ptr uintptr, capacity int) {
	SyncPoint("chan close")
	if ptr == 0 {
		panic("close of nil channel")
	}
	c := chanOf(ptr, capacity)
	if c.closed {
		panic("close of closed channel")
	}
	Release(&c.cls)
	c.closed = true
}

// ChanLen models len(ch).
func ChanLen(ptr uintptr, capacity int) int {
	SyncPoint("chan len")
	if ptr == 0 {
		return 0
	}
	n := len(chanOf(ptr, capacity).buf)
	Observe(uint64(n) + 16)
	return n
}
