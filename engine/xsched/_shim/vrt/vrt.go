//go:build go1.18

// Package vrt is the controlled scheduler and happens-before race detector
// that overlay-instrumented prism sources call into. Outside an exploration
// every hook is a pass-through.
//
// Model: managed goroutines ("threads") run one at a time. Before every hooked
// operation (shared-memory access, sync operation, spawn) the running thread
// hands control to the scheduler, which picks the next thread according to a
// choice sequence. The explorer re-executes the scenario from scratch for
// every choice sequence (stateless search) with a bound on preemptions.
package vrt

import (
	"fmt"
	"image"
	"image/color"
	"image/draw"
	"runtime"
	"sort"
	"strings"
	"time"
	"unsafe"
)

// ---------------------------------------------------------------- state

type vclock []int32

func (v vclock) copyOf() vclock { return append(vclock(nil), v...) }

func (v *vclock) join(o vclock) {
	for len(*v) < len(o) {
		*v = append(*v, 0)
	}
	for i, x := range o {
		if x > (*v)[i] {
			(*v)[i] = x
		}
	}
}

func (v vclock) get(i int) int32 {
	if i < len(v) {
		return v[i]
	}
	return 0
}

func (v *vclock) inc(i int) {
	for len(*v) <= i {
		*v = append(*v, 0)
	}
	(*v)[i]++
}

// hv is a 128-bit running hash. Every thread carries the hash of its own
// history: the hooked operations it has executed, and for every operation that
// observes another thread's effect (a read, an overwriting write, an acquire)
// the history hash of the operation observed. Two execution prefixes in which
// every thread has the same history hash have the same happens-before graph
// and therefore the same program state, shadow memory and vector clocks; the
// explorer uses that to visit each such state once.
type hv struct{ a, b uint64 }

func mix64(x uint64) uint64 {
	x += 0x9E3779B97F4A7C15
	x = (x ^ (x >> 30)) * 0xBF58476D1CE4E5B9
	x = (x ^ (x >> 27)) * 0x94D049BB133111EB
	return x ^ (x >> 31)
}

func (h hv) fold(x uint64) hv {
	return hv{mix64(h.a ^ x), mix64(h.b + x*0xD6E8FEB86659FD93 + 0x632BE59BD9B4E019)}
}

func (h hv) foldH(o hv) hv { return h.fold(o.a).fold(o.b) }

type thread struct {
	id       int
	h        hv
	resume   chan struct{}
	vc       vclock
	done     bool
	blocked  func() bool // non-nil while waiting; returns true when it may proceed
	lastCell uintptr
	lastKind int
	started  bool

	spinObj   *SyncObj
	spinVer   int
	spinCount int
	spinOps   int
	ops       int // hooked operations performed (memory accesses and sync points)
	abort     bool
}

type access struct {
	tid    int
	clk    int32
	pc     uintptr
	valid  bool
	atomic bool // made through sync/atomic: never races with another atomic access
}

type shadow struct {
	w  access
	wh hv       // history hash of the last writer at its write
	r  []access // last read per thread since the last write
}

// Point is one scheduling decision.
type Point struct {
	Enabled             []int // thread ids in canonical order
	Choice              int   // index into Enabled
	RunningStillEnabled bool
	Preemptions         int // preemptions used before this point
	What                string
	Key                 [2]uint64 // hash of the happens-before state before this decision
}

type sched struct {
	threads    []*thread
	cur        *thread
	yield      chan int
	prefix     []int
	points     []Point
	preempt    int
	shadow     map[uintptr]*shadow
	pinned     map[unsafe.Pointer]struct{}
	objs       map[unsafe.Pointer]*SyncObj
	inSpinEval bool
	truncated  bool
	aborting   bool
	chans      map[uintptr]*chanModel
	races      []string
	raceSet    map[string]bool
	failure    string
	steps      int
	maxStep    int
	nsync      int
	nmem       int
	sig        []byte // schedule signature: sequence of running thread ids at decision points
}

// MaxPoints bounds the decision points recorded per execution.
const MaxPoints = 20000

// S is the active scheduler; nil means "not exploring" (hooks pass through).
var s *sched

// Active reports whether an exploration is running.
func Active() bool { return s != nil }

// ---------------------------------------------------------------- execution

// Result of one execution.
type Result struct {
	Points    []Point
	Races     []string
	Failure   string // deadlock / divergence / step limit
	Steps     int
	Threads   int
	SyncOps   int
	MemOps    int
	Signature string
	Truncated bool // more than MaxPoints decision points: the tail ran on default choices only
}

// Run executes body once under the scheduler, replaying prefix and taking
// choice 0 afterwards.
func Run(prefix []int, maxSteps int, body func()) Result {
	sc := &sched{yield: make(chan int), prefix: prefix, shadow: map[uintptr]*shadow{}, pinned: map[unsafe.Pointer]struct{}{}, objs: map[unsafe.Pointer]*SyncObj{}, raceSet: map[string]bool{}, maxStep: maxSteps}
	s = sc
	main := &thread{id: 0, resume: make(chan struct{}), vc: vclock{1}, h: hv{1, 2}}
	sc.threads = append(sc.threads, main)
	go func() {
		<-main.resume
		main.started = true
		defer func() {
			if p := recover(); p != nil {
				if _, ok := p.(abortExec); !ok && !sc.aborting {
					sc.failure = fmt.Sprintf("panic in scenario body: %v", p)
				}
			}
			main.done = true
			main.h = main.h.fold('D')
			sc.yield <- main.id
		}()
		if main.abort {
			return
		}
		body()
	}()
	sc.loop()
	sc.abortParked()
	s = nil
	return Result{Points: sc.points, Races: sc.races, Failure: sc.failure, Steps: sc.steps, Threads: len(sc.threads), SyncOps: sc.nsync, MemOps: sc.nmem, Signature: string(sc.sig), Truncated: sc.truncated}
}

type abortExec struct{}

// abortParked ends the goroutines that are still parked when the execution is
// over (deadlocked threads, idle workers, threads cut off by a failure): each
// is resumed with its abort flag set and leaves through runtime.Goexit, so
// deferred calls run; while aborting every hook returns at once.
func (sc *sched) abortParked() {
	sc.aborting = true
	for _, t := range sc.threads {
		if t.done {
			continue
		}
		t.abort = true
		select {
		case t.resume <- struct{}{}:
			<-sc.yield
		case <-time.After(2 * time.Second):
			// not parked where the scheduler can reach it (blocked in an
			// unmodelled primitive): left behind
		}
	}
}

func (sc *sched) enabled() []int {
	var out []int
	if sc.cur != nil && !sc.cur.done && (sc.cur.blocked == nil || sc.cur.blocked()) {
		out = append(out, sc.cur.id)
	}
	for _, t := range sc.threads {
		if t.done || (sc.cur != nil && t.id == sc.cur.id) {
			continue
		}
		if t.blocked == nil || t.blocked() {
			out = append(out, t.id)
		}
	}
	if len(out) > 1 {
		first := -1
		if sc.cur != nil && len(out) > 0 && out[0] == sc.cur.id {
			first = out[0]
		}
		rest := out
		if first >= 0 {
			rest = out[1:]
		}
		sort.Ints(rest)
	}
	return out
}

func (sc *sched) loop() {
	what := "start"
	for {
		en := sc.enabled()
		if len(en) == 0 {
			alldone := true
			for _, t := range sc.threads {
				if !t.done {
					alldone = false
				}
			}
			// the scenario body (thread 0) not returning is a deadlock; goroutines
			// the library leaves parked for good after the body has returned (an
			// idle worker pool waiting on its channel) are not
			if !alldone && !sc.threads[0].done && sc.failure == "" {
				var stuck []string
				for _, t := range sc.threads {
					if !t.done {
						stuck = append(stuck, fmt.Sprint(t.id))
					}
				}
				sc.failure = "deadlock: threads " + strings.Join(stuck, ",") + " are blocked forever"
			}
			return
		}
		choice := 0
		idx := len(sc.points)
		if len(en) > 1 && idx >= MaxPoints {
			// a runaway execution (tens of thousands of decision points): stop
			// offering alternatives, run to completion on the default choice
			sc.truncated = true
		}
		if len(en) > 1 && idx < MaxPoints {
			if idx < len(sc.prefix) {
				choice = sc.prefix[idx]
				if choice >= len(en) {
					sc.failure = fmt.Sprintf("replay divergence at decision %d: choice %d of %d enabled", idx, choice, len(en))
					return
				}
			}
			runningEnabled := sc.cur != nil && en[0] == sc.cur.id
			sc.points = append(sc.points, Point{Enabled: en, Choice: choice, RunningStillEnabled: runningEnabled, Preemptions: sc.preempt, What: what, Key: sc.stateKey()})
			if runningEnabled && choice != 0 {
				sc.preempt++
			}
		}
		next := sc.threads[en[choice]]
		if len(sc.sig) < 4*MaxPoints {
			sc.sig = append(sc.sig, byte('0'+next.id))
		}
		sc.cur = next
		next.blocked = nil
		sc.steps++
		if sc.maxStep > 0 && sc.steps > sc.maxStep {
			sc.failure = "step limit exceeded (livelock or runaway scenario)"
			return
		}
		next.resume <- struct{}{}
		<-sc.yield
		what = lastWhat
	}
}

var lastWhat string

// stateKey hashes the happens-before state: the multiset of thread history
// hashes (thread ids are an artefact of spawn order, so they are left out) and
// the history of the thread that ran last (it decides what a preemption costs).
func (sc *sched) stateKey() [2]uint64 {
	hs := make([]hv, len(sc.threads))
	for i, t := range sc.threads {
		hs[i] = t.h
	}
	sort.Slice(hs, func(i, j int) bool {
		if hs[i].a != hs[j].a {
			return hs[i].a < hs[j].a
		}
		return hs[i].b < hs[j].b
	})
	k := hv{3, 4}
	for _, h := range hs {
		k = k.foldH(h)
	}
	if sc.cur != nil {
		k = k.fold('C').foldH(sc.cur.h)
	}
	return [2]uint64{k.a, k.b}
}

// yieldPoint hands control to the scheduler and waits to be resumed.
func yieldPoint(what string) {
	sc := s
	if sc.aborting {
		return
	}
	t := sc.cur
	lastWhat = what
	sc.yield <- t.id
	<-t.resume
	if t.abort {
		sc.cur = t
		runtime.Goexit()
	}
}

// blockUntil parks the current thread until cond holds.
func blockUntil(what string, cond func() bool) {
	sc := s
	if sc.aborting {
		return
	}
	t := sc.cur
	for !cond() {
		t.h = t.h.fold('B')
		t.blocked = cond
		lastWhat = what + " (blocked)"
		sc.yield <- t.id
		<-t.resume
		if t.abort {
			sc.cur = t
			runtime.Goexit()
		}
	}
	t.blocked = nil
}

// ---------------------------------------------------------------- spawn / join

// Go starts f as a managed thread (or a plain goroutine outside exploration).
func Go(f func()) {
	sc := s
	if sc == nil {
		go f()
		return
	}
	if sc.aborting {
		return
	}
	sc.nsync++
	parent := sc.cur
	yieldPoint("go")
	parent.h = parent.h.fold('G')
	t := &thread{id: len(sc.threads), resume: make(chan struct{}), vc: parent.vc.copyOf(), h: parent.h.fold(0xC41D)}
	t.vc.inc(t.id)
	parent.vc.inc(parent.id)
	sc.threads = append(sc.threads, t)
	go func() {
		<-t.resume
		defer func() {
			if p := recover(); p != nil {
				if _, ok := p.(abortExec); !ok && sc.failure == "" && !sc.aborting {
					sc.failure = fmt.Sprintf("panic in goroutine %d: %v", t.id, p)
				}
			}
			t.done = true
			t.h = t.h.fold('D')
			sc.yield <- t.id
		}()
		if t.abort {
			return
		}
		f()
	}()
}

// SyncObj carries the vector clock of a synchronisation object.
type SyncObj struct {
	vc  vclock
	rel hv  // commutative sum of the history hashes of the releases so far
	ver int // number of atomic stores published here (spin-wait detection)
}

// Release publishes the current thread's history into o (unlock, Done, end of Once function).
func Release(o *SyncObj) {
	if s == nil {
		return
	}
	t := s.cur
	o.vc.join(t.vc)
	t.vc.inc(t.id)
	t.h = t.h.fold('L')
	o.rel.a += t.h.a
	o.rel.b += t.h.b
}

// Publish replaces what o carries by the current thread's history (atomic
// store: a later load observes this store, not the ones it overwrote).
func Publish(o *SyncObj) {
	if s == nil {
		return
	}
	t := s.cur
	o.vc = t.vc.copyOf()
	t.vc.inc(t.id)
	t.h = t.h.fold('U')
	o.rel = t.h
	o.ver++
}

// SpinCheck is called before an atomic load of o. A goroutine that loads the
// same atomic variable eight times in a row, with no other hooked operation of
// its own and no store to the variable in between, is taken to be spin-waiting:
// it is parked until the next store to that variable or until no other
// goroutine can run (waiting is made visible to the scheduler instead of
// unrolling the loop). A goroutine that merely checks a flag repeatedly is at
// worst delayed until the others have run; one that spins on something nobody
// will ever store runs into the step limit and is reported as a livelock.
func SpinCheck(o *SyncObj) {
	if s == nil {
		return
	}
	sc := s
	t := sc.cur
	if t.spinObj == o && t.spinVer == o.ver && t.spinOps == sc.opsOf(t) {
		t.spinCount++
	} else {
		t.spinObj, t.spinVer, t.spinCount = o, o.ver, 1
	}
	if t.spinCount >= 8 {
		ver := o.ver
		blockUntil("atomic spin-wait", func() bool {
			if o.ver != ver {
				return true
			}
			if sc.inSpinEval {
				return false // another spinner asking: I am waiting too
			}
			sc.inSpinEval = true
			defer func() { sc.inSpinEval = false }()
			for _, u := range sc.threads {
				if u != t && !u.done && (u.blocked == nil || u.blocked()) {
					return false
				}
			}
			return true
		})
		t.spinCount = 0
	}
	// between two back-to-back loads the counter advances by exactly two: the
	// shadow-memory access of this load and the scheduling point of the next
	t.spinOps = sc.opsOf(t) + 2
}

// opsOf is the number of hooked operations t has performed.
func (sc *sched) opsOf(t *thread) int { return t.ops }

// ObjAt returns the synchronisation object standing for the atomic variable at
// p in this execution.
func ObjAt(p unsafe.Pointer) *SyncObj {
	sc := s
	pin(p)
	o := sc.objs[p]
	if o == nil {
		o = &SyncObj{}
		sc.objs[p] = o
	}
	return o
}

// AtomicAccess records an access made through sync/atomic in the shadow
// memory: it is ordered with every other atomic access, but an unordered plain
// access to the same bytes is a race.
func AtomicAccess(p unsafe.Pointer, size uintptr, write bool) {
	if s == nil {
		return
	}
	k := kindRead
	if write {
		k = kindWrite
	}
	s.cur.lastCell = 0
	memAccess(uintptr(p), size, k, true, false)
}

// Acquire imports o's history into the current thread (lock, Wait return, Once.Do return).
func Acquire(o *SyncObj) {
	if s == nil {
		return
	}
	s.cur.vc.join(o.vc)
	s.cur.h = s.cur.h.fold('A').foldH(o.rel)
}

// Observe folds the outcome of a synchronisation operation that is not an
// acquire (a failed TryLock, for instance) into the current thread's history.
func Observe(x uint64) {
	if s == nil {
		return
	}
	s.cur.h = s.cur.h.fold('O').fold(x)
}

// ObserveObj folds the identity of the releases stored in o into the current
// thread's history without acquiring them.
func ObserveObj(o *SyncObj) {
	if s == nil {
		return
	}
	s.cur.h = s.cur.h.fold('P').foldH(o.rel)
}

// Yield is a scheduling point after an operation that hands a reference to
// other goroutines (an atomic store, sync.Map Store / LoadOrStore, a channel
// send): the goroutine can be descheduled between publishing an object and
// filling it in through writes that are not hooked.
func Yield(what string) {
	if s == nil {
		return
	}
	s.cur.lastCell = 0
	yieldPoint(what)
}

// SyncPoint is a scheduling point before a synchronisation operation.
func SyncPoint(what string) {
	if s == nil {
		return
	}
	s.nsync++
	s.cur.lastCell = 0
	s.cur.ops++
	hw := uint64(len(what))
	for i := 0; i < len(what); i++ {
		hw = hw*131 + uint64(what[i])
	}
	s.cur.h = s.cur.h.fold('S').fold(hw)
	yieldPoint(what)
}

// Block parks the current thread until cond holds (scheduler-visible waiting).
func Block(what string, cond func() bool) {
	if s == nil {
		return
	}
	blockUntil(what, cond)
}

// ---------------------------------------------------------------- memory

const (
	kindRead  = 1
	kindWrite = 2
)

func where(pc uintptr) string {
	f := runtime.FuncForPC(pc)
	if f == nil {
		return "?"
	}
	file, line := f.FileLine(pc)
	if i := strings.LastIndex(file, "/"); i >= 0 {
		if j := strings.LastIndex(file[:i], "/"); j >= 0 {
			file = file[j+1:]
		}
	}
	return fmt.Sprintf("%s:%d", file, line)
}

func (sc *sched) report(kind string, addr uintptr, a access, curPC uintptr, curKind string) {
	t := sc.cur
	msg := fmt.Sprintf("data race: %s by goroutine %d at %s is not ordered (happens-before) with the previous %s by goroutine %d at %s", curKind, t.id, where(curPC), kind, a.tid, where(a.pc))
	if !sc.raceSet[msg] {
		sc.raceSet[msg] = true
		sc.races = append(sc.races, msg)
	}
}

func mem(addr uintptr, size uintptr, kind int) { memAccess(addr, size, kind, false, true) }

func memAccess(addr uintptr, size uintptr, kind int, atomic, yield bool) {
	sc := s
	t := sc.cur
	sc.nmem++
	t.ops++
	cell := addr &^ 7
	if yield && (t.lastCell != cell || t.lastKind != kind) {
		t.lastCell, t.lastKind = cell, kind
		if kind == kindWrite {
			yieldPoint("write")
		} else {
			yieldPoint("read")
		}
	}
	var pcs [1]uintptr
	runtime.Callers(4, pcs[:])
	pc := pcs[0]
	for a := addr; a < addr+size; a++ {
		sh := sc.shadow[a]
		if sh == nil {
			sh = &shadow{}
			sc.shadow[a] = sh
		}
		if sh.w.valid && sh.w.tid != t.id && sh.w.clk > t.vc.get(sh.w.tid) && !(atomic && sh.w.atomic) {
			if kind == kindWrite {
				sc.report("write", a, sh.w, pc, "write")
			} else {
				sc.report("write", a, sh.w, pc, "read")
			}
		}
		if kind == kindWrite {
			for _, r := range sh.r {
				if r.tid != t.id && r.clk > t.vc.get(r.tid) && !(atomic && r.atomic) {
					sc.report("read", a, r, pc, "write")
				}
			}
			sh.w = access{t.id, t.vc.get(t.id), pc, true, atomic}
			sh.r = sh.r[:0]
			t.h = t.h.fold(uint64(pc) ^ 0x5700000000000000).foldH(sh.wh)
			sh.wh = t.h
		} else {
			t.h = t.h.fold(uint64(pc) ^ 0x5200000000000000).foldH(sh.wh)
			found := false
			for i := range sh.r {
				if sh.r[i].tid == t.id {
					sh.r[i] = access{t.id, t.vc.get(t.id), pc, true, atomic}
					found = true
				}
			}
			if !found {
				sh.r = append(sh.r, access{t.id, t.vc.get(t.id), pc, true, atomic})
			}
		}
		if len(sc.races) > 0 {
			break // one report per access is enough
		}
	}
}

// pin keeps every hooked object reachable until the end of the execution (and
// makes hooked variables escape to the heap), so that an address is never
// reused by another variable while its shadow state is alive: without this a
// finished goroutine's stack slot or a collected heap object handed to another
// goroutine would look like an unordered conflicting access.
func pin(p unsafe.Pointer) {
	sc := s
	if _, ok := sc.pinned[p]; !ok {
		sc.pinned[p] = struct{}{}
	}
}

// R is the read hook: *vrt.R(&x).
func R[T any](p *T) *T {
	if s != nil {
		pin(unsafe.Pointer(p))
		mem(uintptr(unsafe.Pointer(p)), unsafe.Sizeof(*p), kindRead)
	}
	return p
}

// W is the write hook: *vrt.W(&x) = v.
func W[T any](p *T) *T {
	if s != nil {
		pin(unsafe.Pointer(p))
		mem(uintptr(unsafe.Pointer(p)), unsafe.Sizeof(*p), kindWrite)
	}
	return p
}

// RW is the read-modify-write hook: *vrt.RW(&x) += v.
func RW[T any](p *T) *T {
	if s != nil {
		pin(unsafe.Pointer(p))
		mem(uintptr(unsafe.Pointer(p)), unsafe.Sizeof(*p), kindRead)
		mem(uintptr(unsafe.Pointer(p)), unsafe.Sizeof(*p), kindWrite)
	}
	return p
}

// ---------------------------------------------------------------- images

func pixelCell(img interface{}, x, y int) (unsafe.Pointer, uintptr) {
	pt := image.Pt(x, y)
	switch m := img.(type) {
	case *image.RGBA:
		if pt.In(m.Rect) {
			return unsafe.Pointer(&m.Pix[m.PixOffset(x, y)]), 4
		}
	case *image.RGBA64:
		if pt.In(m.Rect) {
			return unsafe.Pointer(&m.Pix[m.PixOffset(x, y)]), 8
		}
	case *image.NRGBA:
		if pt.In(m.Rect) {
			return unsafe.Pointer(&m.Pix[m.PixOffset(x, y)]), 4
		}
	case *image.NRGBA64:
		if pt.In(m.Rect) {
			return unsafe.Pointer(&m.Pix[m.PixOffset(x, y)]), 8
		}
	case *image.Gray:
		if pt.In(m.Rect) {
			return unsafe.Pointer(&m.Pix[m.PixOffset(x, y)]), 1
		}
	case *image.Gray16:
		if pt.In(m.Rect) {
			return unsafe.Pointer(&m.Pix[m.PixOffset(x, y)]), 2
		}
	case *image.CMYK:
		if pt.In(m.Rect) {
			return unsafe.Pointer(&m.Pix[m.PixOffset(x, y)]), 4
		}
	case *image.YCbCr:
		if pt.In(m.Rect) {
			return unsafe.Pointer(&m.Y[m.YOffset(x, y)]), 1
		}
	case *image.Paletted:
		if pt.In(m.Rect) {
			return unsafe.Pointer(&m.Pix[m.PixOffset(x, y)]), 1
		}
	}
	return nil, 0
}

func pix(img interface{}, x, y int, kind int) {
	if s == nil {
		return
	}
	if a, n := pixelCell(img, x, y); a != nil {
		pin(a)
		mem(uintptr(a), n, kind)
	}
	// unknown image types: their own accessors are instrumented if they live in
	// an instrumented package; otherwise the free-running -race pass covers them
}

func At(img image.Image, x, y int) color.Color { pix(img, x, y, kindRead); return img.At(x, y) }

func Set(img draw.Image, x, y int, c color.Color) { pix(img, x, y, kindWrite); img.Set(x, y, c) }

func RGBA64At(img interface{ RGBA64At(x, y int) color.RGBA64 }, x, y int) color.RGBA64 {
	pix(img, x, y, kindRead)
	return img.RGBA64At(x, y)
}

func RGBAAt(img interface{ RGBAAt(x, y int) color.RGBA }, x, y int) color.RGBA {
	pix(img, x, y, kindRead)
	return img.RGBAAt(x, y)
}

func NRGBAAt(img interface{ NRGBAAt(x, y int) color.NRGBA }, x, y int) color.NRGBA {
	pix(img, x, y, kindRead)
	return img.NRGBAAt(x, y)
}

func NRGBA64At(img interface{ NRGBA64At(x, y int) color.NRGBA64 }, x, y int) color.NRGBA64 {
	pix(img, x, y, kindRead)
	return img.NRGBA64At(x, y)
}

func YCbCrAt(img interface{ YCbCrAt(x, y int) color.YCbCr }, x, y int) color.YCbCr {
	pix(img, x, y, kindRead)
	return img.YCbCrAt(x, y)
}

func SetRGBA64(img interface {
	SetRGBA64(x, y int, c color.RGBA64)
}, x, y int, c color.RGBA64) {
	pix(img, x, y, kindWrite)
	img.SetRGBA64(x, y, c)
}

func SetRGBA(img interface{ SetRGBA(x, y int, c color.RGBA) }, x, y int, c color.RGBA) {
	pix(img, x, y, kindWrite)
	img.SetRGBA(x, y, c)
}

func SetNRGBA(img interface{ SetNRGBA(x, y int, c color.NRGBA) }, x, y int, c color.NRGBA) {
	pix(img, x, y, kindWrite)
	img.SetNRGBA(x, y, c)
}

func SetNRGBA64(img interface {
	SetNRGBA64(x, y int, c color.NRGBA64)
}, x, y int, c color.NRGBA64) {
	pix(img, x, y, kindWrite)
	img.SetNRGBA64(x, y, c)
}
