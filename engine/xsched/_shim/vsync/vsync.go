//go:build go1.18

// Package vsync replaces package sync in overlay-instrumented sources: the
// same API, but every operation is a scheduling point of the controlled
// scheduler and carries the happens-before edges the Go memory model defines.
// Outside an exploration the types delegate to the real package sync.
package vsync

import (
	"sync"

	"github.com/mandykoh/prism/zverif/vrt"
)

// Go is what a rewritten `go` statement calls.
func Go(f func()) { vrt.Go(f) }

type Locker = sync.Locker

// ---- Once

type Once struct {
	real    sync.Once
	done    bool
	running bool
	obj     vrt.SyncObj
}

func (o *Once) Do(f func()) {
	if !vrt.Active() {
		o.real.Do(f)
		return
	}
	vrt.SyncPoint("Once.Do")
	if o.done {
		vrt.Acquire(&o.obj)
		return
	}
	if o.running {
		vrt.Block("Once.Do", func() bool { return o.done })
		vrt.Acquire(&o.obj)
		return
	}
	o.running = true
	defer func() {
		// like sync.Once, the Once is done even if f panics
		vrt.Release(&o.obj)
		o.done = true
		o.running = false
	}()
	f()
}

// ---- WaitGroup

type WaitGroup struct {
	real sync.WaitGroup
	n    int
	obj  vrt.SyncObj
}

func (w *WaitGroup) Add(delta int) {
	if !vrt.Active() {
		w.real.Add(delta)
		return
	}
	vrt.SyncPoint("WaitGroup.Add")
	if delta < 0 {
		vrt.Release(&w.obj)
	}
	w.n += delta
	if w.n < 0 {
		panic("sync: negative WaitGroup counter")
	}
}

func (w *WaitGroup) Done() { w.Add(-1) }

func (w *WaitGroup) Wait() {
	if !vrt.Active() {
		w.real.Wait()
		return
	}
	vrt.SyncPoint("WaitGroup.Wait")
	vrt.Block("WaitGroup.Wait", func() bool { return w.n == 0 })
	vrt.Acquire(&w.obj)
}

// ---- Mutex

type Mutex struct {
	real   sync.Mutex
	locked bool
	obj    vrt.SyncObj
}

func (m *Mutex) Lock() {
	if !vrt.Active() {
		m.real.Lock()
		return
	}
	vrt.SyncPoint("Mutex.Lock")
	vrt.Block("Mutex.Lock", func() bool { return !m.locked })
	m.locked = true
	vrt.Acquire(&m.obj)
}

func (m *Mutex) TryLock() bool {
	if !vrt.Active() {
		return m.real.TryLock()
	}
	vrt.SyncPoint("Mutex.TryLock")
	if m.locked {
		vrt.Observe(0)
		return false
	}
	m.locked = true
	vrt.Acquire(&m.obj)
	return true
}

func (m *Mutex) Unlock() {
	if !vrt.Active() {
		m.real.Unlock()
		return
	}
	vrt.SyncPoint("Mutex.Unlock")
	if !m.locked {
		panic("sync: unlock of unlocked mutex")
	}
	vrt.Release(&m.obj)
	m.locked = false
}

// ---- RWMutex

type RWMutex struct {
	real    sync.RWMutex
	writer  bool
	readers int
	obj     vrt.SyncObj // released by writers and readers, acquired by both
}

func (m *RWMutex) Lock() {
	if !vrt.Active() {
		m.real.Lock()
		return
	}
	vrt.SyncPoint("RWMutex.Lock")
	vrt.Block("RWMutex.Lock", func() bool { return !m.writer && m.readers == 0 })
	m.writer = true
	vrt.Acquire(&m.obj)
}

func (m *RWMutex) Unlock() {
	if !vrt.Active() {
		m.real.Unlock()
		return
	}
	vrt.SyncPoint("RWMutex.Unlock")
	vrt.Release(&m.obj)
	m.writer = false
}

func (m *RWMutex) RLock() {
	if !vrt.Active() {
		m.real.RLock()
		return
	}
	vrt.SyncPoint("RWMutex.RLock")
	vrt.Block("RWMutex.RLock", func() bool { return !m.writer })
	m.readers++
	vrt.Acquire(&m.obj)
}

func (m *RWMutex) RUnlock() {
	if !vrt.Active() {
		m.real.RUnlock()
		return
	}
	vrt.SyncPoint("RWMutex.RUnlock")
	vrt.Release(&m.obj)
	m.readers--
}

func (m *RWMutex) RLocker() Locker { return rlocker{m} }

type rlocker struct{ m *RWMutex }

func (r rlocker) Lock()   { r.m.RLock() }
func (r rlocker) Unlock() { r.m.RUnlock() }

// ---- Pool
//
// sync.Pool may hand back any object put earlier, or a new one. The model is
// the adversarial refinement for aliasing bugs: Get returns the most recently
// Put object whenever there is one. Per the Go memory model a Put(x)
// synchronises before the Get that returns x.

type Pool struct {
	New   func() any
	real  sync.Pool
	items []poolItem
}

type poolItem struct {
	v   any
	obj *vrt.SyncObj
}

func (p *Pool) Get() any {
	if !vrt.Active() {
		if v := p.real.Get(); v != nil {
			return v
		}
		if p.New != nil {
			return p.New()
		}
		return nil
	}
	vrt.SyncPoint("Pool.Get")
	if n := len(p.items); n > 0 {
		it := p.items[n-1]
		p.items = p.items[:n-1]
		vrt.Acquire(it.obj)
		return it.v
	}
	vrt.Observe(1)
	if p.New != nil {
		return p.New()
	}
	return nil
}

func (p *Pool) Put(x any) {
	if !vrt.Active() {
		p.real.Put(x)
		return
	}
	if x == nil {
		return
	}
	vrt.SyncPoint("Pool.Put")
	if n := len(p.items); n > 0 {
		vrt.ObserveObj(p.items[n-1].obj) // the order of Puts decides what later Gets return
	} else {
		vrt.Observe(2)
	}
	obj := &vrt.SyncObj{}
	vrt.Release(obj)
	p.items = append(p.items, poolItem{x, obj})
}

// ---- Cond
//
// Wait releases L, parks the goroutine until a Signal or Broadcast picks it,
// and re-acquires L. There are no spurious wake-ups (sync.Cond has none
// either); a Wait that nobody signals is a deadlock of the execution.

type condWaiter struct {
	woken bool
	obj   vrt.SyncObj
}

type Cond struct {
	L       Locker
	real    *sync.Cond
	waiters []*condWaiter
}

func NewCond(l Locker) *Cond { return &Cond{L: l} }

func (c *Cond) realCond() *sync.Cond {
	if c.real == nil {
		c.real = sync.NewCond(c.L)
	}
	return c.real
}

func (c *Cond) Wait() {
	if !vrt.Active() {
		c.realCond().Wait()
		return
	}
	vrt.SyncPoint("Cond.Wait")
	w := &condWaiter{}
	c.waiters = append(c.waiters, w)
	c.L.Unlock()
	vrt.Block("Cond.Wait", func() bool { return w.woken })
	vrt.Acquire(&w.obj)
	c.L.Lock()
}

func (c *Cond) Signal() {
	if !vrt.Active() {
		c.realCond().Signal()
		return
	}
	vrt.SyncPoint("Cond.Signal")
	if len(c.waiters) > 0 {
		w := c.waiters[0]
		c.waiters = c.waiters[1:]
		vrt.Release(&w.obj)
		w.woken = true
	} else {
		vrt.Observe(4)
	}
}

func (c *Cond) Broadcast() {
	if !vrt.Active() {
		c.realCond().Broadcast()
		return
	}
	vrt.SyncPoint("Cond.Broadcast")
	for _, w := range c.waiters {
		vrt.Release(&w.obj)
		w.woken = true
	}
	vrt.Observe(uint64(len(c.waiters)) + 8)
	c.waiters = nil
}

// ---- Map
//
// The real sync.Map holds the data (one goroutine runs at a time); every
// operation is a scheduling point, a store publishes the storing goroutine's
// history for that key and a load that finds the key acquires it.

type Map struct {
	real sync.Map
	objs map[interface{}]*vrt.SyncObj
}

func (m *Map) obj(k interface{}) *vrt.SyncObj {
	if m.objs == nil {
		m.objs = map[interface{}]*vrt.SyncObj{}
	}
	o := m.objs[k]
	if o == nil {
		o = &vrt.SyncObj{}
		m.objs[k] = o
	}
	return o
}

func (m *Map) Load(key interface{}) (interface{}, bool) {
	if !vrt.Active() {
		return m.real.Load(key)
	}
	vrt.SyncPoint("Map.Load")
	v, ok := m.real.Load(key)
	if ok {
		vrt.Acquire(m.obj(key))
	} else {
		vrt.Observe(5)
	}
	return v, ok
}

func (m *Map) Store(key, value interface{}) {
	if !vrt.Active() {
		m.real.Store(key, value)
		return
	}
	vrt.SyncPoint("Map.Store")
	vrt.Publish(m.obj(key))
	m.real.Store(key, value)
	vrt.Yield("after Map.Store")
}

func (m *Map) LoadOrStore(key, value interface{}) (interface{}, bool) {
	if !vrt.Active() {
		return m.real.LoadOrStore(key, value)
	}
	vrt.SyncPoint("Map.LoadOrStore")
	actual, loaded := m.real.LoadOrStore(key, value)
	if loaded {
		vrt.Acquire(m.obj(key))
	} else {
		vrt.Publish(m.obj(key))
	}
	vrt.Observe(b2u(loaded))
	if !loaded {
		vrt.Yield("after Map.LoadOrStore")
	}
	return actual, loaded
}

func (m *Map) LoadAndDelete(key interface{}) (interface{}, bool) {
	if !vrt.Active() {
		return m.real.LoadAndDelete(key)
	}
	vrt.SyncPoint("Map.LoadAndDelete")
	v, ok := m.real.LoadAndDelete(key)
	if ok {
		vrt.Acquire(m.obj(key))
		vrt.Publish(m.obj(key))
	} else {
		vrt.Observe(6)
	}
	return v, ok
}

func (m *Map) Delete(key interface{}) { m.LoadAndDelete(key) }

func (m *Map) Swap(key, value interface{}) (interface{}, bool) {
	if !vrt.Active() {
		return m.real.Swap(key, value)
	}
	vrt.SyncPoint("Map.Swap")
	prev, loaded := m.real.Swap(key, value)
	if loaded {
		vrt.Acquire(m.obj(key))
	}
	vrt.Publish(m.obj(key))
	vrt.Observe(b2u(loaded))
	return prev, loaded
}

func (m *Map) CompareAndSwap(key, old, new interface{}) bool {
	if !vrt.Active() {
		return m.real.CompareAndSwap(key, old, new)
	}
	vrt.SyncPoint("Map.CompareAndSwap")
	vrt.Acquire(m.obj(key))
	ok := m.real.CompareAndSwap(key, old, new)
	if ok {
		vrt.Publish(m.obj(key))
	}
	vrt.Observe(b2u(ok))
	return ok
}

func (m *Map) CompareAndDelete(key, old interface{}) bool {
	if !vrt.Active() {
		return m.real.CompareAndDelete(key, old)
	}
	vrt.SyncPoint("Map.CompareAndDelete")
	vrt.Acquire(m.obj(key))
	ok := m.real.CompareAndDelete(key, old)
	if ok {
		vrt.Publish(m.obj(key))
	}
	vrt.Observe(b2u(ok))
	return ok
}

func (m *Map) Range(f func(key, value interface{}) bool) {
	if !vrt.Active() {
		m.real.Range(f)
		return
	}
	vrt.SyncPoint("Map.Range")
	m.real.Range(func(k, v interface{}) bool {
		vrt.Acquire(m.obj(k))
		return f(k, v)
	})
}

func b2u(b bool) uint64 {
	if b {
		return 1
	}
	return 0
}
