// Package instr generates the source overlay for engine A: an instrumented copy
// of every in-scope prism package (and of the go-parallel dependency) in which
// sync operations, go statements and accesses to shared memory call into the
// controlled scheduler. /repo itself is never modified: the result is a
// `go build -overlay` JSON file.
package instr

import (
	"bytes"
	"encoding/json"
	"fmt"
	"go/ast"
	"go/format"
	"go/token"
	"go/types"
	"os"
	"path/filepath"
	"sort"
	"strings"

	"golang.org/x/tools/go/ast/astutil"
	"golang.org/x/tools/go/packages"
)

const (
	vrtPath      = "github.com/mandykoh/prism/zverif/vrt"
	vsyncPath    = "github.com/mandykoh/prism/zverif/vsync"
	vatomicPath  = "github.com/mandykoh/prism/zverif/vatomic"
	vchanPath    = "github.com/mandykoh/prism/zverif/vchan"
	parallelPath = "github.com/mandykoh/prism/zverif/parallel"
)

// Stats describes what the rewriter did (it goes into the evidence).
type Stats struct {
	Packages       int
	Files          int
	HookedGlobals  []string
	HookedCaptured []string
	ReadHooks      int
	WriteHooks     int
	PixHooks       int
	ImageCallHooks int
	GoStatements   int
	SyncImports    int
	FieldHooks     int // accesses to plain fields of structs that carry a sync object
	ChanOps        int // channel sends, receives, ranges, closes and lens rewritten to the channel model
	AtomicImports  int
	Uninstrumented []string // constructs the rewriter saw but could not hook
	Channels       []string // select statements, sync.Cond and sync.Map uses in instrumented packages (not modelled)
	ResetPackages  []string
}

type rewriter struct {
	fset      *token.FileSet
	pkg       *packages.Package
	globals   map[*types.Var]bool // hooked package-level vars (any package)
	locals    map[*types.Var]bool
	elems     map[*types.Var]bool // slice/array variables whose elements are assigned somewhere
	handled   map[ast.Node]bool
	stats     *Stats
	usedVrt   bool
	usedVchan bool
	recv2     map[ast.Node]bool   // <-ch expressions that are the single right-hand side of a two-value assignment
	chanNodes map[ast.Node]string // range statements over channels, close(ch) and len(ch) calls, found before their operands are rewritten
}

func isImageType(t types.Type) bool {
	if p, ok := t.(*types.Pointer); ok {
		t = p.Elem()
	}
	n, ok := t.(*types.Named)
	return ok && n.Obj().Pkg() != nil && n.Obj().Pkg().Path() == "image"
}

func (rw *rewriter) isPixExpr(e ast.Expr) bool {
	ix, ok := e.(*ast.IndexExpr)
	if !ok {
		return false
	}
	// element of a shared slice/array variable whose elements are written somewhere
	if id, ok := ix.X.(*ast.Ident); ok {
		if v, ok := rw.pkg.TypesInfo.Uses[id].(*types.Var); ok && !v.IsField() && rw.elems[v] {
			return true
		}
	}
	sel, ok := ix.X.(*ast.SelectorExpr)
	if !ok {
		return false
	}
	switch sel.Sel.Name {
	case "Pix", "Y", "Cb", "Cr", "A":
	default:
		return false
	}
	tv, ok := rw.pkg.TypesInfo.Types[sel.X]
	return ok && isImageType(tv.Type)
}

func (rw *rewriter) hookedIdent(e ast.Expr) *types.Var {
	id, ok := e.(*ast.Ident)
	if !ok {
		return nil
	}
	v, ok := rw.pkg.TypesInfo.Uses[id].(*types.Var)
	if !ok || v.IsField() {
		return nil
	}
	if rw.globals[v] || rw.locals[v] {
		return v
	}
	return nil
}

func hook(fn string, target ast.Expr) ast.Expr {
	return &ast.StarExpr{X: &ast.CallExpr{
		Fun:  &ast.SelectorExpr{X: ast.NewIdent("vrt"), Sel: ast.NewIdent(fn)},
		Args: []ast.Expr{&ast.UnaryExpr{Op: token.AND, X: target}},
	}}
}

// valueRoot walks x.f / x[i] chains that stay inside the variable's own memory
// (struct fields, array elements) and returns the root identifier.
func (rw *rewriter) valueRoot(e ast.Expr) *ast.Ident {
	for {
		switch x := e.(type) {
		case *ast.ParenExpr:
			e = x.X
		case *ast.SelectorExpr:
			if sel := rw.pkg.TypesInfo.Selections[x]; sel == nil || sel.Indirect() {
				return nil
			}
			e = x.X
		case *ast.IndexExpr:
			tv, ok := rw.pkg.TypesInfo.Types[x.X]
			if !ok {
				return nil
			}
			if _, isArr := tv.Type.Underlying().(*types.Array); !isArr {
				return nil
			}
			e = x.X
		case *ast.Ident:
			return x
		default:
			return nil
		}
	}
}

var imageMethods = map[string]bool{"At": true, "Set": true, "RGBA64At": true, "RGBAAt": true, "NRGBAAt": true, "NRGBA64At": true, "YCbCrAt": true,
	"SetRGBA64": true, "SetRGBA": true, "SetNRGBA": true, "SetNRGBA64": true}

func (rw *rewriter) file(f *ast.File) {
	info := rw.pkg.TypesInfo
	pre := func(c *astutil.Cursor) bool {
		switch n := c.Node().(type) {
		case *ast.ValueSpec:
			if len(n.Names) == 2 && len(n.Values) == 1 {
				if u, ok := ast.Unparen(n.Values[0]).(*ast.UnaryExpr); ok && u.Op == token.ARROW {
					rw.recv2[u] = true
				}
			}
		case *ast.AssignStmt:
			if len(n.Lhs) == 2 && len(n.Rhs) == 1 {
				if u, ok := ast.Unparen(n.Rhs[0]).(*ast.UnaryExpr); ok && u.Op == token.ARROW {
					rw.recv2[u] = true
				}
			}
			if n.Tok == token.DEFINE {
				for _, l := range n.Lhs {
					if rw.hookedIdent(l) != nil {
						rw.handled[l] = true
						rw.stats.Uninstrumented = append(rw.stats.Uninstrumented, fmt.Sprintf("%s: redeclaration of hooked variable in := (write not hooked)", rw.fset.Position(l.Pos())))
					}
				}
				return true
			}
			fn := "W"
			if n.Tok != token.ASSIGN {
				fn = "RW"
			}
			for i, l := range n.Lhs {
				if rw.hookedIdent(l) != nil {
					rw.handled[l] = true
					n.Lhs[i] = hook(fn, l)
					rw.stats.WriteHooks++
					rw.usedVrt = true
					continue
				}
				if rw.isPixExpr(l) {
					rw.handled[l] = true
					n.Lhs[i] = hook(fn, l)
					rw.stats.PixHooks++
					rw.usedVrt = true
					continue
				}
				if rw.guardedField(l) {
					rw.handled[l] = true
					n.Lhs[i] = hook(fn, l)
					rw.stats.FieldHooks++
					rw.usedVrt = true
					continue
				}
				if ix, ok := l.(*ast.IndexExpr); ok && rw.guardedField(ix.X) {
					if tv, ok := info.Types[ix.X]; ok {
						if _, isMap := tv.Type.Underlying().(*types.Map); isMap {
							rw.handled[ix.X] = true
							ix.X = &ast.ParenExpr{X: hook("W", ix.X)}
							rw.stats.FieldHooks++
							rw.usedVrt = true
							continue
						}
					}
				}
				if ix, ok := l.(*ast.IndexExpr); ok {
					if tv, ok := info.Types[ix.X]; ok {
						if _, isMap := tv.Type.Underlying().(*types.Map); isMap && rw.hookedIdent(ix.X) != nil {
							// m[k] = v mutates the map: a write of the map variable
							rw.handled[ix.X] = true
							ix.X = &ast.ParenExpr{X: hook("W", ix.X)}
							rw.stats.WriteHooks++
							rw.usedVrt = true
							continue
						}
					}
				}
				if root := rw.valueRoot(l); root != nil && root != l && rw.hookedIdent(root) != nil {
					// x.f = v / x[i] = v on a struct or array variable writes x's memory
					rw.handled[root] = true
					n.Lhs[i] = hook(fn, l)
					rw.stats.WriteHooks++
					rw.usedVrt = true
				}
			}
		case *ast.IncDecStmt:
			if rw.hookedIdent(n.X) != nil || rw.isPixExpr(n.X) || rw.guardedField(n.X) {
				rw.handled[n.X] = true
				n.X = hook("RW", n.X)
				rw.stats.WriteHooks++
				rw.usedVrt = true
			}
		case *ast.RangeStmt:
			if tv, ok := info.Types[n.X]; ok {
				if _, isChan := tv.Type.Underlying().(*types.Chan); isChan {
					rw.chanNodes[n] = "range"
				}
			}
			if n.Tok == token.ASSIGN {
				for _, e := range []ast.Expr{n.Key, n.Value} {
					if e != nil && rw.hookedIdent(e) != nil {
						rw.handled[e] = true
						rw.stats.Uninstrumented = append(rw.stats.Uninstrumented, fmt.Sprintf("%s: range assignment to hooked variable", rw.fset.Position(e.Pos())))
					}
				}
			}
		case *ast.UnaryExpr:
			if n.Op == token.AND {
				if rw.hookedIdent(n.X) != nil {
					rw.handled[n.X] = true // address taken: accesses through the pointer are not visible
				}
				if rw.isPixExpr(n.X) {
					rw.handled[n.X] = true
				}
				if rw.guardedField(n.X) {
					rw.handled[n.X] = true // address taken
				}
			}
		case *ast.CallExpr:
			if id, ok := n.Fun.(*ast.Ident); ok && len(n.Args) == 1 && (id.Name == "close" || id.Name == "len") {
				if _, builtin := info.Uses[id].(*types.Builtin); builtin {
					if tv, ok := info.Types[n.Args[0]]; ok {
						if _, isChan := tv.Type.Underlying().(*types.Chan); isChan {
							rw.chanNodes[n] = id.Name
						}
					}
				}
			}
			if id, ok := n.Fun.(*ast.Ident); ok && id.Name == "delete" && len(n.Args) == 2 && rw.hookedIdent(n.Args[0]) != nil {
				rw.handled[n.Args[0]] = true
				n.Args[0] = hook("W", n.Args[0])
				rw.stats.WriteHooks++
				rw.usedVrt = true
			}
		case *ast.SelectorExpr:
			// never rewrite the Sel identifier
			rw.handled[n.Sel] = true

		case *ast.KeyValueExpr:
			if id, ok := n.Key.(*ast.Ident); ok {
				if v, ok := info.Uses[id].(*types.Var); ok && v.IsField() {
					rw.handled[id] = true
				}
			}
		}
		return true
	}
	post := func(c *astutil.Cursor) bool {
		switch n := c.Node().(type) {
		case *ast.SendStmt:
			if !chanModelOn {
				return true
			}
			c.Replace(&ast.ExprStmt{X: &ast.CallExpr{Fun: &ast.SelectorExpr{X: ast.NewIdent("vchan"), Sel: ast.NewIdent("Send")}, Args: []ast.Expr{n.Chan, n.Value}}})
			rw.stats.ChanOps++
			rw.usedVchan = true
		case *ast.UnaryExpr:
			if n.Op == token.ARROW && chanModelOn {
				fn := "Recv1"
				if rw.recv2[n] {
					fn = "Recv2"
				}
				c.Replace(&ast.CallExpr{Fun: &ast.SelectorExpr{X: ast.NewIdent("vchan"), Sel: ast.NewIdent(fn)}, Args: []ast.Expr{n.X}})
				rw.stats.ChanOps++
				rw.usedVchan = true
			}
		case *ast.RangeStmt:
			if rw.chanNodes[n] != "range" || !chanModelOn {
				return true
			}
			// for k := range ch { body }  =>  for { k, verifOk := vchan.Recv2(ch); if !verifOk { break }; body }
			recv := &ast.CallExpr{Fun: &ast.SelectorExpr{X: ast.NewIdent("vchan"), Sel: ast.NewIdent("Recv2")}, Args: []ast.Expr{n.X}}
			var key ast.Expr = ast.NewIdent("_")
			if n.Key != nil {
				key = n.Key
			}
			var head []ast.Stmt
			if n.Tok == token.ASSIGN {
				head = append(head, &ast.DeclStmt{Decl: &ast.GenDecl{Tok: token.VAR, Specs: []ast.Spec{&ast.ValueSpec{Names: []*ast.Ident{ast.NewIdent("verifOk")}, Type: ast.NewIdent("bool")}}}},
					&ast.AssignStmt{Lhs: []ast.Expr{key, ast.NewIdent("verifOk")}, Tok: token.ASSIGN, Rhs: []ast.Expr{recv}})
			} else {
				head = append(head, &ast.AssignStmt{Lhs: []ast.Expr{key, ast.NewIdent("verifOk")}, Tok: token.DEFINE, Rhs: []ast.Expr{recv}})
			}
			head = append(head, &ast.IfStmt{Cond: &ast.UnaryExpr{Op: token.NOT, X: ast.NewIdent("verifOk")}, Body: &ast.BlockStmt{List: []ast.Stmt{&ast.BranchStmt{Tok: token.BREAK}}}})
			c.Replace(&ast.ForStmt{Body: &ast.BlockStmt{List: append(head, n.Body.List...)}})
			rw.stats.ChanOps++
			rw.usedVchan = true
		case *ast.GoStmt:
			// go f(a, b)  =>  { a0, a1 := a, b; vrt.Go(func() { f(a0, a1) }) }
			var names []ast.Expr
			var vals []ast.Expr
			call := &ast.CallExpr{Fun: n.Call.Fun, Ellipsis: n.Call.Ellipsis}
			for i, a := range n.Call.Args {
				nm := ast.NewIdent(fmt.Sprintf("verifArg%d", i))
				names = append(names, nm)
				vals = append(vals, a)
				call.Args = append(call.Args, ast.NewIdent(nm.Name))
			}
			body := &ast.BlockStmt{}
			if len(names) > 0 {
				body.List = append(body.List, &ast.AssignStmt{Lhs: names, Tok: token.DEFINE, Rhs: vals})
			}
			body.List = append(body.List, &ast.ExprStmt{X: &ast.CallExpr{
				Fun:  &ast.SelectorExpr{X: ast.NewIdent("vrt"), Sel: ast.NewIdent("Go")},
				Args: []ast.Expr{&ast.FuncLit{Type: &ast.FuncType{Params: &ast.FieldList{}}, Body: &ast.BlockStmt{List: []ast.Stmt{&ast.ExprStmt{X: call}}}}},
			}})
			c.Replace(body)
			rw.stats.GoStatements++
			rw.usedVrt = true
		case *ast.CallExpr:
			if id, ok := n.Fun.(*ast.Ident); ok && id.Name == "make" && chanModelOn && len(n.Args) >= 1 && len(n.Args) <= 2 {
				if _, builtin := info.Uses[id].(*types.Builtin); builtin {
					if ct, ok := n.Args[0].(*ast.ChanType); ok && ct.Dir == ast.SEND|ast.RECV {
						// make(chan T, n)  =>  vchan.Make[T](n)
						var size ast.Expr = &ast.BasicLit{Kind: token.INT, Value: "0"}
						if len(n.Args) == 2 {
							size = n.Args[1]
						}
						c.Replace(&ast.CallExpr{Fun: &ast.IndexExpr{X: &ast.SelectorExpr{X: ast.NewIdent("vchan"), Sel: ast.NewIdent("Make")}, Index: ct.Value}, Args: []ast.Expr{size}})
						rw.stats.ChanOps++
						rw.usedVchan = true
						return true
					}
				}
			}
			if what := rw.chanNodes[n]; chanModelOn && (what == "close" || what == "len") {
				name := "Close"
				if what == "len" {
					name = "Len"
				}
				n.Fun = &ast.SelectorExpr{X: ast.NewIdent("vchan"), Sel: ast.NewIdent(name)}
				rw.stats.ChanOps++
				rw.usedVchan = true
				return true
			}
			sel, ok := n.Fun.(*ast.SelectorExpr)
			if !ok || !imageMethods[sel.Sel.Name] {
				return true
			}
			s := info.Selections[sel]
			if s == nil || s.Kind() != types.MethodVal {
				return true
			}
			recv := s.Recv()
			if !isImageType(recv) && !isImageIface(recv) {
				return true
			}
			args := append([]ast.Expr{sel.X}, n.Args...)
			c.Replace(&ast.CallExpr{Fun: &ast.SelectorExpr{X: ast.NewIdent("vrt"), Sel: ast.NewIdent(sel.Sel.Name)}, Args: args})
			rw.stats.ImageCallHooks++
			rw.usedVrt = true
		case *ast.SelectorExpr:
			if rw.handled[n] || !rw.guardedField(n) {
				return true
			}
			// a call through a func-typed field, or a field used as a method
			// receiver, still reads the field
			c.Replace(&ast.ParenExpr{X: hook("R", n)})
			rw.stats.FieldHooks++
			rw.usedVrt = true
		case *ast.IndexExpr:
			if rw.handled[n] || !rw.isPixExpr(n) {
				return true
			}
			c.Replace(&ast.ParenExpr{X: hook("R", n)})
			rw.stats.PixHooks++
			rw.usedVrt = true
		case *ast.Ident:
			if rw.handled[n] {
				return true
			}
			if _, isUse := info.Uses[n]; !isUse {
				return true
			}
			if rw.hookedIdent(n) == nil {
				return true
			}
			// not in a position that must stay an identifier
			switch p := c.Parent().(type) {
			case *ast.SelectorExpr:
				if p.Sel == n {
					return true
				}
			case *ast.Field, *ast.ValueSpec:
				return true
			}
			c.Replace(&ast.ParenExpr{X: hook("R", ast.NewIdent(n.Name))})
			rw.stats.ReadHooks++
			rw.usedVrt = true
		}
		return true
	}
	astutil.Apply(f, pre, post)
}

func isImageIface(t types.Type) bool {
	n, ok := t.(*types.Named)
	if !ok || n.Obj().Pkg() == nil {
		return false
	}
	p := n.Obj().Pkg().Path()
	return (p == "image" || p == "image/draw") && types.IsInterface(t)
}

// enclosingFuncs maps each node position to whether it lies inside func init.
func initRanges(f *ast.File) [][2]token.Pos {
	var out [][2]token.Pos
	for _, d := range f.Decls {
		if fd, ok := d.(*ast.FuncDecl); ok && fd.Recv == nil && fd.Name.Name == "init" && fd.Body != nil {
			out = append(out, [2]token.Pos{fd.Body.Pos(), fd.Body.End()})
		}
	}
	return out
}

func inRanges(p token.Pos, rs [][2]token.Pos) bool {
	for _, r := range rs {
		if p >= r[0] && p <= r[1] {
			return true
		}
	}
	return false
}

// Generate builds the overlay for the tree at repoDir into outDir.
// shimDir holds _shim/{vrt,vsync} and _harness.
func Generate(repoDir, outDir, shimDir string) (overlayPath string, st Stats, err error) {
	cfg := &packages.Config{Mode: packages.NeedName | packages.NeedFiles | packages.NeedCompiledGoFiles | packages.NeedSyntax | packages.NeedTypes | packages.NeedTypesInfo | packages.NeedDeps | packages.NeedImports | packages.NeedModule,
		Dir: repoDir, Env: append(os.Environ(), "GOFLAGS=-mod=mod", "GOPROXY=off", "GOSUMDB=off", "GOTOOLCHAIN=local")}
	pkgs, err := packages.Load(cfg, "./...", "github.com/mandykoh/go-parallel")
	if err != nil {
		return "", st, err
	}
	for _, p := range pkgs {
		if len(p.Errors) > 0 {
			return "", st, fmt.Errorf("package %s does not type-check: %v", p.PkgPath, p.Errors[0])
		}
	}
	sort.Slice(pkgs, func(i, j int) bool { return pkgs[i].PkgPath < pkgs[j].PkgPath })

	// pass 0: struct fields handed to sync/atomic functions by address; package-level
	// variables that are mutated through a pointer-receiver method or whose
	// address is taken outside init (they are reset between executions unless
	// init assigns them)
	atomicStructs = map[types.Object]bool{}
	sharedStructs = map[types.Object]bool{}
	atomicFields = map[types.Object]bool{}
	// a select statement anywhere switches the channel model off altogether: the
	// operations inside its cases cannot be rewritten, and a channel used both
	// through the model and for real would be two different channels
	chanModelOn = true
	for _, p := range pkgs {
		for _, f := range p.Syntax {
			ast.Inspect(f, func(m ast.Node) bool {
				if _, ok := m.(*ast.SelectStmt); ok {
					chanModelOn = false
				}
				return true
			})
		}
	}
	mutableVars := map[*types.Var]bool{}
	initAssigned := map[*types.Var]bool{}
	_ = initAssigned
	for _, p := range pkgs {
		info := p.TypesInfo
		for _, f := range p.Syntax {
			inits := initRanges(f)
			rootVar := func(e ast.Expr) *types.Var {
				for {
					switch x := e.(type) {
					case *ast.ParenExpr:
						e = x.X
						continue
					case *ast.SelectorExpr:
						if sel := info.Selections[x]; sel != nil && sel.Kind() == types.FieldVal && !sel.Indirect() {
							e = x.X
							continue
						}
					case *ast.IndexExpr:
						if tv, ok := info.Types[x.X]; ok {
							if _, isArr := tv.Type.Underlying().(*types.Array); isArr {
								e = x.X
								continue
							}
						}
					case *ast.Ident:
						if v, ok := info.Uses[x].(*types.Var); ok && !v.IsField() && v.Pkg() != nil && v.Parent() == v.Pkg().Scope() {
							return v
						}
					}
					return nil
				}
			}
			ast.Inspect(f, func(m ast.Node) bool {
				switch x := m.(type) {
				case *ast.CallExpr:
					if sel, ok := x.Fun.(*ast.SelectorExpr); ok {
						if id, ok := sel.X.(*ast.Ident); ok {
							if pn, ok := info.Uses[id].(*types.PkgName); ok && pn.Imported().Path() == "sync/atomic" {
								for _, a := range x.Args {
									if u, ok := a.(*ast.UnaryExpr); ok && u.Op == token.AND {
										if fs, ok := u.X.(*ast.SelectorExpr); ok {
											if s := info.Selections[fs]; s != nil && s.Kind() == types.FieldVal {
												recv := s.Recv()
												if pt, ok := recv.(*types.Pointer); ok {
													recv = pt.Elem()
												}
												if n, ok := recv.(*types.Named); ok {
													atomicStructs[n.Obj()] = true
													atomicFields[s.Obj()] = true
												}
											}
										}
									}
								}
							}
						}
						// method with pointer receiver called on (part of) a package-level variable
						if s := info.Selections[sel]; s != nil && s.Kind() == types.MethodVal {
							if fn, ok := s.Obj().(*types.Func); ok {
								if sig, ok := fn.Type().(*types.Signature); ok && sig.Recv() != nil {
									if _, ptr := sig.Recv().Type().(*types.Pointer); ptr {
										if v := rootVar(sel.X); v != nil && !inRanges(x.Pos(), inits) {
											mutableVars[v] = true
										}
									}
								}
							}
						}
					}
				case *ast.UnaryExpr:
					if x.Op == token.AND {
						if v := rootVar(x.X); v != nil && !inRanges(x.Pos(), inits) {
							mutableVars[v] = true
							// `p := &global` and then p.field: the accesses go through the
							// pointer, so the fields of that struct type are hooked
							if id, ok := x.X.(*ast.Ident); ok && info.Uses[id] == types.Object(v) {
								if n, ok := v.Type().(*types.Named); ok && n.Obj().Pkg() != nil && instrumentedPkg(n.Obj().Pkg().Path()) {
									if _, isStruct := n.Underlying().(*types.Struct); isStruct {
										sharedStructs[n.Obj()] = true
									}
								}
							}
						}
					}
				case *ast.AssignStmt:
					if inRanges(x.Pos(), inits) {
						for _, l := range x.Lhs {
							if v := rootVar(l); v != nil {
								initAssigned[v] = true
							}
						}
					}
				}
				return true
			})
		}
	}

	// pass 1: which package-level variables are written outside init, which
	// locals are captured by a function literal and written after their definition
	globals := map[*types.Var]bool{}
	elems := map[*types.Var]bool{}
	localsByPkg := map[*packages.Package]map[*types.Var]bool{}
	syncVarsUsed := map[*types.Var]bool{}
	for _, p := range pkgs {
		locals := map[*types.Var]bool{}
		localsByPkg[p] = locals
		info := p.TypesInfo
		for _, f := range p.Syntax {
			inits := initRanges(f)
			assigned := map[*types.Var]bool{}
			captured := map[*types.Var]bool{}
			markAssign := func(e ast.Expr) {
				for {
					switch x := e.(type) {
					case *ast.ParenExpr:
						e = x.X
						continue
					case *ast.SelectorExpr:
						if sel := info.Selections[x]; sel != nil && !sel.Indirect() {
							e = x.X
							continue
						}
					case *ast.IndexExpr:
						if tv, ok := info.Types[x.X]; ok {
							if _, isArr := tv.Type.Underlying().(*types.Array); isArr {
								e = x.X
								continue
							}
							if _, isMap := tv.Type.Underlying().(*types.Map); isMap {
								e = x.X // m[k] = v writes the map
								continue
							}
							if _, isSlice := tv.Type.Underlying().(*types.Slice); isSlice {
								// element of a slice variable: remember the variable so that
								// every element access of it is hooked (the header is only read)
								if id, ok := x.X.(*ast.Ident); ok {
									if v, ok := info.Uses[id].(*types.Var); ok && !v.IsField() {
										if v.Parent() != v.Pkg().Scope() || !inRanges(id.Pos(), inits) {
											elems[v] = true
										}
									}
								}
							}
						}
					case *ast.Ident:
						if v, ok := info.Uses[x].(*types.Var); ok && !v.IsField() {
							if v.Parent() == v.Pkg().Scope() {
								// sync and sync/atomic objects (and arrays of them) are accessed
								// through their methods, which are the hooks
								if !inRanges(x.Pos(), inits) && !containsSync(v.Type()) {
									globals[v] = true
								}
							} else {
								assigned[v] = true
							}
						}
					}
					return
				}
			}
			var litStack []*ast.FuncLit
			ast.Inspect(f, func(n ast.Node) bool {
				switch x := n.(type) {
				case *ast.AssignStmt:
					for _, l := range x.Lhs {
						markAssign(l)
					}
				case *ast.IncDecStmt:
					markAssign(x.X)
				case *ast.RangeStmt:
					if x.Tok == token.ASSIGN {
						if x.Key != nil {
							markAssign(x.Key)
						}
						if x.Value != nil {
							markAssign(x.Value)
						}
					}
				case *ast.UnaryExpr:
					if x.Op == token.AND {
						markAssign(x.X)
					}
				case *ast.Ident:
					// any use of a package-level sync / sync/atomic object outside init: reset it between executions
					if v, ok := info.Uses[x].(*types.Var); ok && !v.IsField() && v.Pkg() != nil && v.Parent() == v.Pkg().Scope() && containsSync(v.Type()) && !inRanges(x.Pos(), inits) {
						syncVarsUsed[v] = true
					}
				}
				return true
			})
			// captured variables
			var walk func(n ast.Node)
			walk = func(n ast.Node) {
				ast.Inspect(n, func(m ast.Node) bool {
					if lit, ok := m.(*ast.FuncLit); ok && m != n {
						litStack = append(litStack, lit)
						walk(lit)
						litStack = litStack[:len(litStack)-1]
						return false
					}
					if id, ok := m.(*ast.Ident); ok && len(litStack) > 0 {
						if v, ok := info.Uses[id].(*types.Var); ok && !v.IsField() && v.Parent() != v.Pkg().Scope() {
							outer := litStack[0]
							_ = outer
							for _, lit := range litStack {
								if v.Pos() < lit.Pos() || v.Pos() > lit.End() {
									captured[v] = true
								}
							}
						}
					}
					return true
				})
			}
			walk(f)
			for v := range captured {
				if assigned[v] {
					locals[v] = true
				}
			}
		}
	}

	// pass 2: rewrite
	overlay := map[string]string{}
	for _, p := range pkgs {
		st.Packages++
		var resetLines []string
		var initNames []string
		needImports := map[string]string{}
		for i, f := range p.Syntax {
			path := p.CompiledGoFiles[i]
			rw := &rewriter{fset: p.Fset, pkg: p, globals: globals, locals: localsByPkg[p], elems: elems, handled: map[ast.Node]bool{}, stats: &st, recv2: map[ast.Node]bool{}, chanNodes: map[ast.Node]string{}}
			// sync import -> shim
			for _, im := range f.Imports {
				if im.Path.Value == `"sync"` {
					im.Path.Value = fmt.Sprintf("%q", vsyncPath)
					if im.Name == nil {
						im.Name = ast.NewIdent("sync")
					}
					st.SyncImports++
				}
				if im.Path.Value == `"github.com/mandykoh/go-parallel"` {
					// the dependency is replaced by its instrumented copy living
					// inside the prism module (a dependency module cannot import
					// the virtual shim packages)
					im.Path.Value = fmt.Sprintf("%q", parallelPath)
					if im.Name == nil {
						im.Name = ast.NewIdent("parallel")
					}
				}
				if im.Path.Value == `"sync/atomic"` {
					im.Path.Value = fmt.Sprintf("%q", vatomicPath)
					if im.Name == nil {
						im.Name = ast.NewIdent("atomic")
					}
					st.AtomicImports++
				}
			}
			// channel operations are not modelled: a goroutine blocked on a channel
			// looks runnable to the scheduler. Record them; the check then skips
			// interleaving exploration instead of hanging or reporting nonsense.
			// select statements are not modelled (the other channel operations are):
			// with one present the check skips interleaving exploration
			ast.Inspect(f, func(m ast.Node) bool {
				if x, ok := m.(*ast.SelectStmt); ok {
					st.Channels = append(st.Channels, p.Fset.Position(x.Pos()).String()+" (select)")
				}
				return true
			})
			rw.file(f)
			// init functions become ordinary functions that a generated init calls,
			// so that VerifReset can run them again after zeroing the package state
			// (state built by init - registered formats, small tables - has to be
			// there again at the start of every execution)
			if p.Module != nil && p.Module.Path == "github.com/mandykoh/prism" {
				var extra []ast.Decl
				for _, d := range f.Decls {
					if fd, ok := d.(*ast.FuncDecl); ok && fd.Recv == nil && fd.Name.Name == "init" && fd.Body != nil {
						nm := fmt.Sprintf("verifInit%d", len(initNames))
						initNames = append(initNames, nm)
						fd.Name = ast.NewIdent(nm)
						extra = append(extra, &ast.FuncDecl{Name: ast.NewIdent("init"), Type: &ast.FuncType{Params: &ast.FieldList{}},
							Body: &ast.BlockStmt{List: []ast.Stmt{&ast.ExprStmt{X: &ast.CallExpr{Fun: ast.NewIdent(nm)}}}}})
					}
				}
				f.Decls = append(f.Decls, extra...)
			}
			if rw.usedVrt {
				astutil.AddNamedImport(p.Fset, f, "vrt", vrtPath)
			}
			if rw.usedVchan {
				astutil.AddNamedImport(p.Fset, f, "vchan", vchanPath)
			}
			var buf bytes.Buffer
			buf.WriteString("//go:build go1.18\n\n")
			if err := format.Node(&buf, p.Fset, f); err != nil {
				return "", st, fmt.Errorf("printing %s: %v", path, err)
			}
			rel := strings.TrimPrefix(path, string(filepath.Separator))
			dst := filepath.Join(outDir, "src", rel)
			if err := os.MkdirAll(filepath.Dir(dst), 0o755); err != nil {
				return "", st, err
			}
			if err := os.WriteFile(dst, buf.Bytes(), 0o644); err != nil {
				return "", st, err
			}
			if p.PkgPath == "github.com/mandykoh/go-parallel" {
				overlay[filepath.Join(repoDir, "zverif", "parallel", filepath.Base(path))] = dst
			} else {
				overlay[path] = dst
			}
			st.Files++
		}
		// reset function for lazily initialised package state
		scope := p.Types.Scope()
		for _, name := range scope.Names() {
			v, ok := scope.Lookup(name).(*types.Var)
			if !ok {
				continue
			}
			if globals[v] || syncVarsUsed[v] || (mutableVars[v] && instrumentedPkg(p.PkgPath) && !isFuncOrIface(v.Type())) {
				initExpr := ""
				for _, f := range p.Syntax {
					for _, d := range f.Decls {
						gd, ok := d.(*ast.GenDecl)
						if !ok || gd.Tok != token.VAR {
							continue
						}
						for _, sp := range gd.Specs {
							vs := sp.(*ast.ValueSpec)
							for i, nm := range vs.Names {
								if nm.Name == name && len(vs.Values) == len(vs.Names) {
									var b bytes.Buffer
									format.Node(&b, p.Fset, vs.Values[i])
									initExpr = b.String()
									ast.Inspect(vs.Values[i], func(m ast.Node) bool {
										if sel, ok := m.(*ast.SelectorExpr); ok {
											if id, ok := sel.X.(*ast.Ident); ok {
												if pn, ok := p.TypesInfo.Uses[id].(*types.PkgName); ok {
													if pn.Imported().Path() == "sync" {
														needImports[vsyncPath] = id.Name
													} else if pn.Imported().Path() == "sync/atomic" {
														needImports[vatomicPath] = id.Name
													} else {
														needImports[pn.Imported().Path()] = id.Name
													}
												}
											}
										}
										return true
									})
								}
							}
						}
					}
				}
				if initExpr != "" {
					resetLines = append(resetLines, fmt.Sprintf("\t%s = %s", name, initExpr))
				} else {
					resetLines = append(resetLines, fmt.Sprintf("\t{\n\t\tvar zero %s\n\t\t%s = zero\n\t}", types.TypeString(v.Type(), func(q *types.Package) string {
						if q == p.Types {
							return ""
						}
						if q.Path() == "sync" {
							needImports[vsyncPath] = "sync"
							return "sync"
						}
						if q.Path() == "sync/atomic" {
							needImports[vatomicPath] = "atomic"
							return "atomic"
						}
						needImports[q.Path()] = q.Name()
						return q.Name()
					}), name))
				}
				if globals[v] {
					st.HookedGlobals = append(st.HookedGlobals, p.PkgPath+"."+name)
				}
			}
		}
		if len(resetLines) > 0 {
			for _, nm := range initNames {
				resetLines = append(resetLines, "\t"+nm+"()")
			}
		}
		if len(resetLines) > 0 && len(p.GoFiles) > 0 && p.Module != nil && p.Module.Path == "github.com/mandykoh/prism" {
			var b bytes.Buffer
			b.WriteString("//go:build go1.18\n\npackage " + p.Name + "\n\n")
			var ims []string
			for path, name := range needImports {
				ims = append(ims, fmt.Sprintf("\t%s %q", name, path))
			}
			sort.Strings(ims)
			if len(ims) > 0 {
				b.WriteString("import (\n" + strings.Join(ims, "\n") + "\n)\n\n")
			}
			b.WriteString("// VerifReset puts the package's lazily initialised state back to what it is\n// at process start (generated by the verification overlay).\nfunc VerifReset() {\n" + strings.Join(resetLines, "\n") + "\n}\n")
			virt := filepath.Join(filepath.Dir(p.GoFiles[0]), "zz_verif_reset.go")
			dst := filepath.Join(outDir, "src", strings.TrimPrefix(virt, string(filepath.Separator)))
			os.MkdirAll(filepath.Dir(dst), 0o755)
			if err := os.WriteFile(dst, b.Bytes(), 0o644); err != nil {
				return "", st, err
			}
			overlay[virt] = dst
			st.ResetPackages = append(st.ResetPackages, p.PkgPath)
		}
		for v := range localsByPkg[p] {
			st.HookedCaptured = append(st.HookedCaptured, fmt.Sprintf("%s:%s", p.Fset.Position(v.Pos()), v.Name()))
		}
	}
	sort.Strings(st.HookedCaptured)
	sort.Strings(st.HookedGlobals)

	// virtual packages: shim + harness
	addDir := func(real, virt string) error {
		ents, err := os.ReadDir(real)
		if err != nil {
			return err
		}
		for _, e := range ents {
			if strings.HasSuffix(e.Name(), ".go") {
				overlay[filepath.Join(virt, e.Name())] = filepath.Join(real, e.Name())
			}
		}
		return nil
	}
	if err := addDir(filepath.Join(shimDir, "_shim", "vrt"), filepath.Join(repoDir, "zverif", "vrt")); err != nil {
		return "", st, err
	}
	if err := addDir(filepath.Join(shimDir, "_shim", "vsync"), filepath.Join(repoDir, "zverif", "vsync")); err != nil {
		return "", st, err
	}
	if err := addDir(filepath.Join(shimDir, "_shim", "vatomic"), filepath.Join(repoDir, "zverif", "vatomic")); err != nil {
		return "", st, err
	}
	if err := addDir(filepath.Join(shimDir, "_shim", "vchan"), filepath.Join(repoDir, "zverif", "vchan")); err != nil {
		return "", st, err
	}
	if err := addDir(filepath.Join(shimDir, "_harness"), filepath.Join(repoDir, "zverif", "harness")); err != nil {
		return "", st, err
	}
	// harness-side list of reset functions
	{
		var b bytes.Buffer
		b.WriteString("//go:build go1.18\n\npackage main\n\nimport (\n")
		for i, pp := range st.ResetPackages {
			fmt.Fprintf(&b, "\tr%d %q\n", i, pp)
		}
		b.WriteString(")\n\nfunc resetAll() {\n")
		for i := range st.ResetPackages {
			fmt.Fprintf(&b, "\tr%d.VerifReset()\n", i)
		}
		b.WriteString("}\n")
		dst := filepath.Join(outDir, "src", "zz_resets.go")
		os.MkdirAll(filepath.Dir(dst), 0o755)
		if err := os.WriteFile(dst, b.Bytes(), 0o644); err != nil {
			return "", st, err
		}
		overlay[filepath.Join(repoDir, "zverif", "harness", "zz_resets.go")] = dst
	}
	ov, _ := json.MarshalIndent(map[string]interface{}{"Replace": overlay}, "", " ")
	overlayPath = filepath.Join(outDir, "overlay.json")
	if err := os.WriteFile(overlayPath, ov, 0o644); err != nil {
		return "", st, err
	}
	return overlayPath, st, nil
}

// atomicStructs: struct types (by type name object) one of whose fields is
// passed by address to a sync/atomic function somewhere in the instrumented
// packages (`atomic.LoadUint32(&t.state)`): they carry a synchronisation object
// just as much as a struct with a sync.Mutex field does.
var chanModelOn = true

var atomicStructs = map[types.Object]bool{}

// sharedStructs: struct types of package-level variables whose address is
// taken outside init (`w := &lastResult`): what is then read and written
// through the pointer is that variable, so plain fields of the type are hooked
// like the fields of lock-carrying structs.
var sharedStructs = map[types.Object]bool{}

// atomicFields: the fields themselves (accessed through sync/atomic, not hooked as plain memory).
var atomicFields = map[types.Object]bool{}

// containsSync reports whether t is, or is a struct/array containing, a sync or
// sync/atomic object: the usual shape of shared state ("a lock and what it
// guards").
func containsSync(t types.Type) bool { return containsSyncDepth(t, 0) }

func containsSyncDepth(t types.Type, depth int) bool {
	if depth > 6 {
		return false
	}
	if isSyncType(t) {
		return true
	}
	if n, ok := t.(*types.Named); ok && atomicStructs[n.Obj()] {
		return true
	}
	switch u := t.Underlying().(type) {
	case *types.Struct:
		for i := 0; i < u.NumFields(); i++ {
			if containsSyncDepth(u.Field(i).Type(), depth+1) {
				return true
			}
		}
	case *types.Array:
		return containsSyncDepth(u.Elem(), depth+1)
	}
	return false
}

// guardedField reports whether sel reads or writes a plain field of a struct
// that carries a sync object (and is declared in an instrumented package): such
// fields are hooked like package-level variables.
func (rw *rewriter) guardedField(e ast.Expr) bool {
	sel, ok := e.(*ast.SelectorExpr)
	if !ok {
		return false
	}
	s := rw.pkg.TypesInfo.Selections[sel]
	if s == nil || s.Kind() != types.FieldVal {
		return false
	}
	recv := s.Recv()
	if p, ok := recv.(*types.Pointer); ok {
		recv = p.Elem()
	}
	n, ok := recv.(*types.Named)
	if !ok || n.Obj().Pkg() == nil || !instrumentedPkg(n.Obj().Pkg().Path()) {
		return false
	}
	if _, isStruct := n.Underlying().(*types.Struct); !isStruct || !(containsSync(n) || sharedStructs[n.Obj()]) {
		return false
	}
	if containsSync(s.Obj().Type()) || atomicFields[s.Obj()] {
		return false // the sync object itself
	}
	tv, ok := rw.pkg.TypesInfo.Types[sel]
	return ok && tv.Addressable()
}

func isFuncOrIface(t types.Type) bool {
	switch t.Underlying().(type) {
	case *types.Signature, *types.Interface:
		return true
	}
	return false
}

func instrumentedPkg(path string) bool {
	return strings.HasPrefix(path, "github.com/mandykoh/prism") || path == "github.com/mandykoh/go-parallel"
}

func isSyncType(t types.Type) bool {
	if a, ok := t.(*types.Array); ok {
		return isSyncType(a.Elem())
	}
	n, ok := t.(*types.Named)
	return ok && n.Obj().Pkg() != nil && (n.Obj().Pkg().Path() == "sync" || n.Obj().Pkg().Path() == "sync/atomic")
}
