package gen

import (
	"bytes"
	"compress/zlib"
	"encoding/binary"
	"fmt"
	"hash/crc32"
)

// Info is what a loader must report for a generated file, known by construction.
type Info struct {
	Format        string
	W, H, Bits    uint32
	ICC           []byte   // exact embedded bytes; nil when none / damaged
	HasICC        bool     // a profile is embedded (intact)
	ICCDamaged    bool     // a damaged profile is embedded: the accessor must return an error
	ICCLoose      bool     // outcome of the ICC accessor is not pinned by the property (e.g. duplicate chunk numbers)
	ICCAltError   bool     // besides the exact bytes an error is acceptable too (damage located after the earliest stopping point)
	NoSOF         bool     // no frame header before the scan: Load must fail
	States        []uint64 // JPEG reference model: encoded state after each consumed event (see JPEGStateString)
	ICCCandidates [][]byte
	Need          int // offset of the end of the last structure a loader needs
}

// ---------------------------------------------------------------- PNG

type PNGChunk struct {
	Type string
	Data []byte
	// BadCRC writes a wrong CRC (loaders that skip CRCs must not care).
	BadCRC bool
}

type PNGSpec struct {
	W, H                           uint32
	BitDepth, ColorType, Interlace byte
	Pre                            []PNGChunk // between IHDR and IDAT, in order
	IDAT                           []byte
	IDATDeclared                   int // when > len(IDAT): declared length of a (virtual) larger IDAT
	NoIEND                         bool
}

var pngSig = []byte{0x89, 'P', 'N', 'G', 0x0D, 0x0A, 0x1A, 0x0A}

func pngChunk(t string, d []byte, bad bool) []byte {
	b := make([]byte, 0, 12+len(d))
	b = append(b, be32(uint32(len(d)))...)
	b = append(b, t...)
	b = append(b, d...)
	c := crc32.NewIEEE()
	c.Write([]byte(t))
	c.Write(d)
	s := c.Sum32()
	if bad {
		s ^= 0xFFFFFFFF
	}
	return append(b, be32(s)...)
}

// ICCPChunk builds an iCCP chunk payload.
func ICCPChunk(name string, profile []byte, level int) []byte {
	var z bytes.Buffer
	w, _ := zlib.NewWriterLevel(&z, level)
	w.Write(profile)
	w.Close()
	d := append([]byte(name), 0, 0)
	return append(d, z.Bytes()...)
}

// Build serialises the PNG. iccAt is the index in Pre of an intact iCCP chunk (or -1).
func (s PNGSpec) Build(icc []byte, iccAt int) ([]byte, Info) {
	out := append([]byte(nil), pngSig...)
	ihdr := append(be32(s.W), be32(s.H)...)
	ihdr = append(ihdr, s.BitDepth, s.ColorType, 0, 0, s.Interlace)
	out = append(out, pngChunk("IHDR", ihdr, false)...)
	info := Info{Format: "PNG", W: s.W, H: s.H, Bits: uint32(s.BitDepth)}
	for i, c := range s.Pre {
		out = append(out, pngChunk(c.Type, c.Data, c.BadCRC)...)
		if i == iccAt {
			info.HasICC, info.ICC, info.Need = true, icc, len(out)
		}
	}
	// IDAT
	if s.IDATDeclared > len(s.IDAT) {
		out = append(out, be32(uint32(s.IDATDeclared))...)
		out = append(out, "IDAT"...)
		if !info.HasICC {
			info.Need = len(out)
		}
		out = append(out, s.IDAT...)
		return out, info
	}
	hdrEnd := len(out) + 8
	out = append(out, pngChunk("IDAT", s.IDAT, false)...)
	if !info.HasICC {
		info.Need = hdrEnd
	}
	if !s.NoIEND {
		out = append(out, pngChunk("IEND", nil, false)...)
	}
	return out, info
}

// ---------------------------------------------------------------- JPEG

type JPEGSeg struct {
	Marker byte
	Data   []byte // payload without the 2 length bytes
}

type JPEGComp struct{ ID, H, V, Tq byte }

type JPEGSpec struct {
	SOFMarker byte // 0xC0 or 0xC2
	Precision byte
	W, H      uint16
	Comps     []JPEGComp
	Before    []JPEGSeg // between SOI and SOF
	After     []JPEGSeg // between SOF and SOS
	Scan      []byte    // entropy-coded bytes after the SOS header
	NoEOI     bool
}

func jpegSeg(m byte, d []byte) []byte {
	b := []byte{0xFF, m}
	b = append(b, be16(uint16(len(d)+2))...)
	return append(b, d...)
}

func (s JPEGSpec) sof() []byte {
	d := []byte{s.Precision}
	d = append(d, be16(s.H)...)
	d = append(d, be16(s.W)...)
	d = append(d, byte(len(s.Comps)))
	for _, c := range s.Comps {
		d = append(d, c.ID, c.H<<4|c.V, c.Tq)
	}
	return jpegSeg(s.SOFMarker, d)
}

func (s JPEGSpec) sos() []byte {
	d := []byte{byte(len(s.Comps))}
	for _, c := range s.Comps {
		d = append(d, c.ID, 0)
	}
	d = append(d, 0, 63, 0)
	return jpegSeg(0xDA, d)
}

// ICCSeg builds an APP2 ICC_PROFILE segment payload.
func ICCSeg(num, total byte, chunk []byte) JPEGSeg {
	d := append([]byte("ICC_PROFILE\x00"), num, total)
	return JPEGSeg{0xE2, append(d, chunk...)}
}

// Build serialises the JPEG; Need/ICC expectations are computed by JPEGModel.
func (s JPEGSpec) Build() ([]byte, []JPEGEvent) {
	out := []byte{0xFF, 0xD8}
	var ev []JPEGEvent
	for _, g := range s.Before {
		out = append(out, jpegSeg(g.Marker, g.Data)...)
		ev = append(ev, JPEGEvent{Seg: g, End: len(out)})
	}
	out = append(out, s.sof()...)
	ev = append(ev, JPEGEvent{SOF: true, End: len(out)})
	for _, g := range s.After {
		out = append(out, jpegSeg(g.Marker, g.Data)...)
		ev = append(ev, JPEGEvent{Seg: g, End: len(out)})
	}
	out = append(out, s.sos()...)
	ev = append(ev, JPEGEvent{SOS: true, End: len(out)})
	out = append(out, s.Scan...)
	if !s.NoEOI {
		out = append(out, 0xFF, 0xD9)
	}
	return out, ev
}

// JPEGEvent is one structural element in file order with its end offset.
type JPEGEvent struct {
	Seg      JPEGSeg
	SOF, SOS bool
	End      int
}

// JPEGModel is the reference model of ICC reassembly: it scans events in file
// order and says what any conforming loader must report.
//
//   - scanning may stop as soon as the frame header has been seen and a
//     complete, consistent chunk set has been seen (the earliest point at which a
//     loader can know everything) and must stop at SOS;
//   - a chunk number of 0 or beyond the declared total, a total differing from the
//     first one seen, or a missing chunk at SOS are damage: error required;
//   - duplicated chunk numbers are not in the property's list: outcome loose.
func JPEGModel(spec JPEGSpec, ev []JPEGEvent) Info {
	info := Info{Format: "JPEG", W: uint32(spec.W), H: uint32(spec.H), Bits: uint32(spec.Precision)}
	var chunks map[int][]byte
	total := -1
	sofSeen, damaged, loose := false, false, false
	lastICCEnd, sofEnd := 0, 0
	id := []byte("ICC_PROFILE\x00")
	complete := func() bool {
		if total <= 0 || damaged || loose {
			return false
		}
		for i := 1; i <= total; i++ {
			if _, ok := chunks[i]; !ok {
				return false
			}
		}
		return true
	}
	state := func(done bool) {
		var mask uint64
		for k := range chunks {
			mask |= 1 << uint(k%40)
		}
		var v uint64
		if sofSeen {
			v |= 1
		}
		if damaged {
			v |= 2
		}
		if loose {
			v |= 4
		}
		if done {
			v |= 8
		}
		v |= uint64(total+1) << 4
		v |= mask << 16
		info.States = append(info.States, v)
	}
	finish := func() Info {
		switch {
		case damaged:
			info.ICCDamaged = true
		case loose:
			info.ICCLoose = true
		case total < 0:
			// no ICC segments at all
		case complete():
			b := []byte{}
			for i := 1; i <= total; i++ {
				b = append(b, chunks[i]...)
			}
			info.HasICC, info.ICC = true, b
		default:
			info.ICCDamaged = true // missing chunk(s)
		}
		return info
	}
	isICC := func(e JPEGEvent) bool {
		return e.Seg.Marker == 0xE2 && len(e.Seg.Data) >= 14 && bytes.Equal(e.Seg.Data[:12], id)
	}
	// shadow scan after the earliest stopping point: later ICC segments that a
	// loader reading on would treat as damage make an error acceptable as well
	shadow := func(from int) {
		for _, e := range ev[from:] {
			if e.SOS {
				return
			}
			if isICC(e) {
				info.ICCAltError = true
			}
		}
	}
	for i, e := range ev {
		switch {
		case e.SOF:
			sofSeen, sofEnd = true, e.End
			if complete() {
				info.Need = e.End
				state(true)
				shadow(i + 1)
				return finish()
			}
			state(false)
		case e.SOS:
			info.Need = e.End
			if complete() {
				info.Need = maxI(sofEnd, lastICCEnd)
			}
			if !sofSeen {
				info.NoSOF = true
			}
			state(true)
			return finish()
		case isICC(e):
			if damaged {
				state(false)
				continue // a loader that has latched an error may ignore the rest
			}
			num, tot := int(e.Seg.Data[12]), int(e.Seg.Data[13])
			if total < 0 {
				total = tot
				chunks = map[int][]byte{}
			} else if tot != total {
				damaged = true
				state(false)
				continue
			}
			if num == 0 || num > total {
				damaged = true
				state(false)
				continue
			}
			if _, dup := chunks[num]; dup {
				loose = true
				state(false)
				continue
			}
			chunks[num] = e.Seg.Data[14:]
			lastICCEnd = e.End
			if sofSeen && complete() {
				info.Need = e.End
				state(true)
				shadow(i + 1)
				return finish()
			}
			state(false)
		default:
			state(false)
		}
	}
	info.Need = 0
	info.NoSOF = !sofSeen
	return finish()
}

// JPEGStateString renders an encoded reference-model state.
func JPEGStateString(v uint64) string {
	return fmt.Sprintf("sofSeen=%v damaged=%v duplicate=%v done=%v total=%d filled=%b", v&1 != 0, v&2 != 0, v&4 != 0, v&8 != 0, int((v>>4)&0xFFF)-1, v>>16)
}

func maxI(a, b int) int {
	if a > b {
		return a
	}
	return b
}

// ---------------------------------------------------------------- WebP

func riffChunk(fourcc string, d []byte) []byte {
	b := append([]byte(fourcc), 0, 0, 0, 0)
	binary.LittleEndian.PutUint32(b[4:], uint32(len(d)))
	b = append(b, d...)
	if len(d)%2 == 1 {
		b = append(b, 0)
	}
	return b
}

func riffWrap(body []byte, declaredExtra int) []byte {
	b := append([]byte("RIFF"), 0, 0, 0, 0)
	binary.LittleEndian.PutUint32(b[4:], uint32(4+len(body)+declaredExtra))
	b = append(b, "WEBP"...)
	return append(b, body...)
}

// WebPVP8 builds a lossy file. w,h are 14-bit; xs, ys the 2-bit scale fields.
// payload follows the 10-byte frame header; declared is the chunk length to
// write when larger than the real one (virtual tail).
func WebPVP8(w, h uint16, xs, ys byte, payload []byte, declared int) ([]byte, Info) {
	hdr := []byte{0x10, 0x02, 0x00, 0x9d, 0x01, 0x2a, byte(w), byte(w>>8)&0x3F | xs<<6, byte(h), byte(h>>8)&0x3F | ys<<6}
	body := append(hdr, payload...)
	ch := riffChunk("VP8 ", body)
	extra := 0
	if declared > len(body) {
		binary.LittleEndian.PutUint32(ch[4:], uint32(declared))
		extra = declared - len(body)
		if len(body)%2 == 1 {
			ch = ch[:len(ch)-1]
		}
	}
	return riffWrap(ch, extra), Info{Format: "WebP", W: uint32(w & 0x3FFF), H: uint32(h & 0x3FFF), Bits: 8, Need: 12 + 8 + 10}
}

// WebPVP8L builds a lossless file; w1,h1 are width-1 and height-1 (14 bits).
func WebPVP8L(w1, h1 uint16, alpha bool, payload []byte, declared int) ([]byte, Info) {
	bits := uint32(w1&0x3FFF) | uint32(h1&0x3FFF)<<14
	if alpha {
		bits |= 1 << 28
	}
	body := []byte{0x2f, byte(bits), byte(bits >> 8), byte(bits >> 16), byte(bits >> 24)}
	body = append(body, payload...)
	ch := riffChunk("VP8L", body)
	extra := 0
	if declared > len(body) {
		binary.LittleEndian.PutUint32(ch[4:], uint32(declared))
		extra = declared - len(body)
		if len(body)%2 == 1 {
			ch = ch[:len(ch)-1]
		}
	}
	return riffWrap(ch, extra), Info{Format: "WebP", W: uint32(w1&0x3FFF) + 1, H: uint32(h1&0x3FFF) + 1, Bits: 8, Need: 12 + 8 + 5}
}

// WebPVP8X builds an extended file. flags is the VP8X flag byte; when icc is
// non-nil an ICCP chunk follows VP8X. rest are further chunks (already encoded).
func WebPVP8X(flags byte, w1, h1 uint32, icc []byte, rest []byte) ([]byte, Info) {
	x := []byte{flags, 0, 0, 0, byte(w1), byte(w1 >> 8), byte(w1 >> 16), byte(h1), byte(h1 >> 8), byte(h1 >> 16)}
	body := riffChunk("VP8X", x)
	info := Info{Format: "WebP", W: w1&0xFFFFFF + 1, H: h1&0xFFFFFF + 1, Bits: 8, Need: 12 + 8 + 10}
	if icc != nil {
		body = append(body, riffChunk("ICCP", icc)...)
		info.HasICC, info.ICC = true, icc
		info.Need = 12 + 18 + 8 + len(icc)
	}
	body = append(body, rest...)
	return riffWrap(body, 0), info
}

// RiffChunk exposes the chunk encoder for hand-built files.
func RiffChunk(fourcc string, d []byte) []byte { return riffChunk(fourcc, d) }

// RiffWrap exposes the container encoder.
func RiffWrap(body []byte) []byte { return riffWrap(body, 0) }
