// Package gen builds test inputs from typed descriptions, so that what a
// loader must report is known by construction.
package gen

import (
	"encoding/binary"
	"unicode/utf16"
)

func be32(v uint32) []byte { b := make([]byte, 4); binary.BigEndian.PutUint32(b, v); return b }
func be16(v uint16) []byte { b := make([]byte, 2); binary.BigEndian.PutUint16(b, v); return b }

func Sig(s string) uint32 {
	return uint32(s[0])<<24 | uint32(s[1])<<16 | uint32(s[2])<<8 | uint32(s[3])
}

// ICCHeader returns a plausible 128-byte header (v2 or v4).
func ICCHeader(major byte) []byte {
	h := make([]byte, 128)
	copy(h[4:], "lcms")
	h[8], h[9] = major, 0x30
	copy(h[12:], "mntr")
	copy(h[16:], "RGB ")
	copy(h[20:], "XYZ ")
	copy(h[24:], []byte{0x07, 0xE4, 0, 2, 0, 29, 0, 23, 0, 59, 0, 58})
	copy(h[36:], "acsp")
	copy(h[40:], "APPL")
	copy(h[68:], []byte{0, 0, 0xF6, 0xD6, 0, 1, 0, 0, 0, 0, 0xD3, 0x2D})
	return h
}

// ICCTag is one tag table entry pointing at a data block.
type ICCTag struct {
	Sig   uint32
	Block int // index into Blocks
}

// ICCLayout describes a whole profile: table order, data blocks, the order in
// which blocks are laid out in the file and the padding before each.
type ICCLayout struct {
	Major      byte
	Tags       []ICCTag
	Blocks     [][]byte
	BlockOrder []int // permutation of block indices: file order
	PadBefore  []int // per file position, bytes of padding before the block
	TailPad    int
}

// Build serialises the layout.
func (l ICCLayout) Build() []byte {
	n := len(l.Tags)
	dataStart := 128 + 4 + 12*n
	order := l.BlockOrder
	if order == nil {
		for i := range l.Blocks {
			order = append(order, i)
		}
	}
	offsets := make([]int, len(l.Blocks))
	pos := dataStart
	var data []byte
	for fi, bi := range order {
		pad := 0
		if fi < len(l.PadBefore) {
			pad = l.PadBefore[fi]
		}
		data = append(data, make([]byte, pad)...)
		pos += pad
		offsets[bi] = pos
		data = append(data, l.Blocks[bi]...)
		pos += len(l.Blocks[bi])
	}
	data = append(data, make([]byte, l.TailPad)...)
	out := ICCHeader(l.Major)
	out = append(out, be32(uint32(n))...)
	for _, t := range l.Tags {
		out = append(out, be32(t.Sig)...)
		out = append(out, be32(uint32(offsets[t.Block]))...)
		out = append(out, be32(uint32(len(l.Blocks[t.Block])))...)
	}
	out = append(out, data...)
	binary.BigEndian.PutUint32(out[0:], uint32(len(out)))
	return out
}

// DescV2 encodes an ICC v2 textDescriptionType with the given ASCII bytes.
func DescV2(ascii []byte) []byte {
	b := []byte("desc\x00\x00\x00\x00")
	b = append(b, be32(uint32(len(ascii)+1))...)
	b = append(b, ascii...)
	b = append(b, 0)
	b = append(b, 0, 0, 0, 0) // Unicode language code
	b = append(b, 0, 0, 0, 0) // Unicode count
	b = append(b, 0, 0)       // ScriptCode code
	b = append(b, 0)          // ScriptCode count
	b = append(b, make([]byte, 67)...)
	return b
}

// MlucRecord is one record of a multiLocalizedUnicodeType.
type MlucRecord struct {
	Lang, Country string
	Text          string
}

// MlucPlacement controls where strings go relative to the record table.
type MlucPlacement int

const (
	MlucTableOrder MlucPlacement = iota // strings follow the table in record order
	MlucReverse                         // strings stored in reverse record order
	MlucGapped                          // 2 bytes of padding between strings
	MlucShared                          // identical texts stored once and shared
	MlucOverlap                         // each string is a prefix/suffix window of one pool (texts are overridden)
)

func UTF16BE(s string) []byte {
	var b []byte
	for _, u := range utf16.Encode([]rune(s)) {
		b = append(b, byte(u>>8), byte(u))
	}
	return b
}

// Mluc encodes the tag; it returns the bytes and, per record, the string the
// record's declared offset/length actually designates.
func Mluc(recs []MlucRecord, recordSize int, place MlucPlacement) ([]byte, []string) {
	n := len(recs)
	hdr := 16 + recordSize*n
	type span struct{ off, ln int }
	spans := make([]span, n)
	var pool []byte
	texts := make([]string, n)
	switch place {
	case MlucTableOrder, MlucGapped:
		for i, r := range recs {
			if place == MlucGapped {
				pool = append(pool, 0xAA, 0x55)
			}
			e := UTF16BE(r.Text)
			spans[i] = span{hdr + len(pool), len(e)}
			pool = append(pool, e...)
			texts[i] = r.Text
		}
	case MlucReverse:
		for i := n - 1; i >= 0; i-- {
			e := UTF16BE(recs[i].Text)
			spans[i] = span{hdr + len(pool), len(e)}
			pool = append(pool, e...)
			texts[i] = recs[i].Text
		}
	case MlucShared:
		seen := map[string]span{}
		for i, r := range recs {
			if s, ok := seen[r.Text]; ok {
				spans[i] = s
			} else {
				e := UTF16BE(r.Text)
				spans[i] = span{hdr + len(pool), len(e)}
				seen[r.Text] = spans[i]
				pool = append(pool, e...)
			}
			texts[i] = r.Text
		}
	case MlucOverlap:
		// one pool made of all texts; record i designates a window starting at
		// the i-th code unit boundary and running to the end of its own text's
		// position + following text (overlapping windows)
		var units []uint16
		starts := make([]int, n+1)
		for i, r := range recs {
			starts[i] = len(units)
			units = append(units, utf16.Encode([]rune(r.Text))...)
		}
		starts[n] = len(units)
		for _, u := range units {
			pool = append(pool, byte(u>>8), byte(u))
		}
		for i := range recs {
			end := starts[n]
			if i+2 <= n {
				end = starts[i+2]
			}
			// do not cut a surrogate pair in half at the end
			spans[i] = span{hdr + 2*starts[i], 2 * (end - starts[i])}
			texts[i] = string(utf16.Decode(units[starts[i]:end]))
		}
	}
	b := []byte("mluc\x00\x00\x00\x00")
	b = append(b, be32(uint32(n))...)
	b = append(b, be32(uint32(recordSize))...)
	for i, r := range recs {
		rec := []byte{r.Lang[0], r.Lang[1], r.Country[0], r.Country[1]}
		rec = append(rec, be32(uint32(spans[i].ln))...)
		rec = append(rec, be32(uint32(spans[i].off))...)
		for len(rec) < recordSize {
			rec = append(rec, 0xEE)
		}
		b = append(b, rec...)
	}
	b = append(b, pool...)
	return b, texts
}
