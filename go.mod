module verif

go 1.23

require (
	github.com/mandykoh/prism v0.0.0
	golang.org/x/image v0.18.0
)

require (
	golang.org/x/mod v0.22.0 // indirect
	golang.org/x/sync v0.10.0 // indirect
)

require (
	github.com/mandykoh/go-parallel v0.1.0 // indirect
	golang.org/x/tools v0.29.0
)

replace github.com/mandykoh/prism => /repo
