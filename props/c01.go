package props

import (
	"fmt"
	"image/color"
	"math"
	"os"

	"verif/engine/ev"
)

// decoyXor: channel perturbations that leave r<<16^g<<8^b, r+g+b-style and
// byte-truncating keys unchanged (a bit moved into the neighbouring channel's
// byte, low bytes only, high bytes only).
var decoyXor = [][3]uint16{{0, 1, 0x100}, {1, 0x100, 0}, {0x100, 0, 0}, {0, 0x100, 0}, {0, 0, 0x100}, {1, 0x101, 0x100}, {0x00FF, 0, 0}, {0, 0x00FF, 0xFF00}, {0x8000, 0x80, 0}, {2, 0x200, 0}}

// customColour is a colour type the library cannot know.
type customColour struct{ r, g, b uint32 }

func (c customColour) RGBA() (uint32, uint32, uint32, uint32) { return c.r, c.g, c.b, 0xffff }

// C01: decoding equals the published EOTF for every code, every entry point.
func C01(tier string) {
	r := ev.Begin("C01", tier, "exploration")
	r.Rule("complete enumeration: all 256 8-bit and all 65,536 16-bit codes x 4 spaces x 2 passes (second pass after every space has built its lazy tables) x {From8Bit, From16Bit, ColorFromNRGBA, ColorFromRGBA, ColorFromEncodedColor and LineariseColor on NRGBA/NRGBA64/RGBA64/Gray/Gray16/CMYK/YCbCr/NYCbCrA/Alpha/Alpha16 and a user-defined colour type} with the code placed in every channel position; distinct = (space, width, code) triples whose decoded value lies strictly inside (0,1)")
	r.Assume("reference EOTFs are the float64 formulas of IEC 61966-2-1, Adobe RGB (1998) and ISO 22028-2 (ROMM)")
	r.Assume("the 16-bit tables are built lazily once per process; this run observes them after a single-goroutine first use (first-use races are C11)")
	const tol = 3e-7

	type bad struct {
		Space, Entry string
		Code         int
		Got, Want    float64
	}
	chk := func(sp *Space, entry string, code int, max float64, got float32) {
		want := sp.Curve.EOTF(float64(code) / max)
		if d := math.Abs(float64(got) - want); !(d <= tol) {
			r.Violate(fmt.Sprintf("%s/%s/eotf", sp.Name, entry),
				fmt.Sprintf("%s %s(%d) = %.9g, published EOTF gives %.9g (|diff| %.3g > 3e-7)", sp.Name, entry, code, got, want, d),
				bad{sp.Name, entry, code, float64(got), want}, nil)
		}
	}

	// first-use order of this process: every 16-bit *encode* table is built
	// before any 16-bit decode (C02's main process uses the opposite order)
	for si := range Spaces {
		if Spaces[si].To16 != nil {
			_ = Spaces[si].To16(0.5)
		}
		_ = Spaces[si].Encode(color.RGBA64{R: 1, G: 2, B: 3, A: 65535})
	}
	// two passes: the second one observes every space after all the others have
	// built their tables (state reached from elsewhere, not only the initial one)
	for pass := 0; pass < 2; pass++ {
		for si := range Spaces {
			sp := &Spaces[si]
			if sp.From8 != nil {
				var prev float32 = -1
				for v := 0; v < 256; v++ {
					got := sp.From8(uint8(v))
					r.Eval(1)
					chk(sp, "From8Bit", v, 255, got)
					if !(got > prev) {
						r.Violate(sp.Name+"/From8Bit/monotone", fmt.Sprintf("%s From8Bit(%d)=%g not > From8Bit(%d)=%g", sp.Name, v, got, v-1, prev), bad{sp.Name, "From8Bit", v, float64(got), float64(prev)}, nil)
					}
					prev = got
					if w := sp.From16(uint16(257 * v)); math.Float32bits(w) != math.Float32bits(got) {
						r.Violate(sp.Name+"/8v16", fmt.Sprintf("%s From8Bit(%d)=%g != From16Bit(%d)=%g", sp.Name, v, got, 257*v, w), bad{sp.Name, "8v16", v, float64(got), float64(w)}, nil)
					}
					if pass == 0 && got > 0 && got < 1 {
						r.DistinctN(1)
					}
				}
				if sp.From8(0) != 0 || sp.From8(255) != 1 {
					r.Violate(sp.Name+"/From8Bit/ends", fmt.Sprintf("%s From8Bit(0)=%g From8Bit(255)=%g, want exactly 0 and 1", sp.Name, sp.From8(0), sp.From8(255)), nil, nil)
				}
				prev = -1
				for v := 0; v < 65536; v++ {
					got := sp.From16(uint16(v))
					r.Eval(1)
					chk(sp, "From16Bit", v, 65535, got)
					if !(got > prev) {
						r.Violate(sp.Name+"/From16Bit/monotone", fmt.Sprintf("%s From16Bit(%d)=%g not > From16Bit(%d)=%g", sp.Name, v, got, v-1, prev), bad{sp.Name, "From16Bit", v, float64(got), float64(prev)}, nil)
					}
					prev = got
					if pass == 0 && got > 0 && got < 1 {
						r.DistinctN(1)
					}
				}
				if sp.From16(0) != 0 || sp.From16(65535) != 1 {
					r.Violate(sp.Name+"/From16Bit/ends", fmt.Sprintf("%s From16Bit(0)=%g From16Bit(65535)=%g, want exactly 0 and 1", sp.Name, sp.From16(0), sp.From16(65535)), nil, nil)
				}
			}

			// 8-bit constructors, value in every channel position
			var prevR float32 = -1
			for v := 0; v < 256; v++ {
				g, b := (v+85)%256, (v+170)%256
				c3, a := sp.FromNRGBA(color.NRGBA{R: uint8(v), G: uint8(g), B: uint8(b), A: 255})
				r.Eval(1)
				chk(sp, "ColorFromNRGBA.R", v, 255, c3.R)
				chk(sp, "ColorFromNRGBA.G", g, 255, c3.G)
				chk(sp, "ColorFromNRGBA.B", b, 255, c3.B)
				if a != 1 {
					r.Violate(sp.Name+"/ColorFromNRGBA/alpha", fmt.Sprintf("%s ColorFromNRGBA opaque alpha=%g", sp.Name, a), nil, nil)
				}
				if !(c3.R > prevR) {
					r.Violate(sp.Name+"/ColorFromNRGBA/monotone", fmt.Sprintf("%s ColorFromNRGBA R(%d)=%g not > previous %g", sp.Name, v, c3.R, prevR), nil, nil)
				}
				prevR = c3.R
				if pass == 0 && sp.From8 == nil && c3.R > 0 && c3.R < 1 {
					r.DistinctN(1)
				}
				c4, a4 := sp.FromRGBA(color.RGBA{R: uint8(v), G: uint8(g), B: uint8(b), A: 255})
				r.Eval(1)
				chk(sp, "ColorFromRGBA.R", v, 255, c4.R)
				chk(sp, "ColorFromRGBA.G", g, 255, c4.G)
				chk(sp, "ColorFromRGBA.B", b, 255, c4.B)
				if a4 != 1 {
					r.Violate(sp.Name+"/ColorFromRGBA/alpha", fmt.Sprintf("%s ColorFromRGBA opaque alpha=%g", sp.Name, a4), nil, nil)
				}
				c5, _ := sp.FromEncodedColor(color.NRGBA{R: uint8(v), G: uint8(g), B: uint8(b), A: 255})
				r.Eval(1)
				chk(sp, "ColorFromEncodedColor(NRGBA).R", v, 255, c5.R)
				chk(sp, "ColorFromEncodedColor(NRGBA).G", g, 255, c5.G)
				chk(sp, "ColorFromEncodedColor(NRGBA).B", b, 255, c5.B)
				if c3 != c4 || c3 != c5 {
					r.Violate(sp.Name+"/constructors-agree8", fmt.Sprintf("%s opaque (%d,%d,%d): NRGBA %v RGBA %v generic %v differ", sp.Name, v, g, b, c3, c4, c5), nil, nil)
				}
				if v == 0 && (c3.R != 0) || v == 255 && (c3.R != 1) {
					r.Violate(sp.Name+"/ColorFromNRGBA/ends", fmt.Sprintf("%s ColorFromNRGBA code %d -> %g", sp.Name, v, c3.R), nil, nil)
				}
			}

			// 16-bit constructors
			prevR = -1
			for v := 0; v < 65536; v++ {
				g, b := (v+21845)%65536, (v+43690)%65536
				for k, col := range []color.Color{
					color.NRGBA64{R: uint16(v), G: uint16(g), B: uint16(b), A: 65535},
					color.RGBA64{R: uint16(v), G: uint16(g), B: uint16(b), A: 65535},
				} {
					// a decoy call with a colour that collides with col under common
					// lossy packings (r<<16^g<<8^b and friends) goes first, so a
					// "last colour" memo cannot answer for col
					{
						x := decoyXor[(v+k)%len(decoyXor)]
						var decoy color.Color
						if k == 0 {
							decoy = color.NRGBA64{R: uint16(v) ^ x[0], G: uint16(g) ^ x[1], B: uint16(b) ^ x[2], A: 65535}
						} else {
							decoy = color.RGBA64{R: uint16(v) ^ x[0], G: uint16(g) ^ x[1], B: uint16(b) ^ x[2], A: 65535}
						}
						_, _ = sp.FromEncodedColor(decoy)
						_ = sp.Linearise(decoy)
					}
					c6, a6 := sp.FromEncodedColor(col)
					r.Eval(1)
					name := [...]string{"ColorFromEncodedColor(NRGBA64)", "ColorFromEncodedColor(RGBA64)"}[k]
					chk(sp, name+".R", v, 65535, c6.R)
					chk(sp, name+".G", g, 65535, c6.G)
					chk(sp, name+".B", b, 65535, c6.B)
					if a6 != 1 {
						r.Violate(sp.Name+"/"+name+"/alpha", fmt.Sprintf("%s %s opaque alpha=%g", sp.Name, name, a6), nil, nil)
					}
					if k == 0 {
						if !(c6.R > prevR) {
							r.Violate(sp.Name+"/"+name+"/monotone", fmt.Sprintf("%s %s R(%d)=%g not > previous %g", sp.Name, name, v, c6.R, prevR), nil, nil)
						}
						prevR = c6.R
						if pass == 0 && sp.From16 == nil && c6.R > 0 && c6.R < 1 {
							r.DistinctN(1)
						}
						if v == 0 && c6.R != 0 || v == 65535 && c6.R != 1 {
							r.Violate(sp.Name+"/"+name+"/ends", fmt.Sprintf("%s %s code %d -> %g", sp.Name, name, v, c6.R), nil, nil)
						}
					}
					lin := sp.Linearise(col)
					r.Eval(1)
					for ci, pair := range [3][2]float64{{float64(lin.R), float64(v)}, {float64(lin.G), float64(g)}, {float64(lin.B), float64(b)}} {
						want := 65535 * sp.Curve.EOTF(pair[1]/65535)
						if d := math.Abs(pair[0] - want); !(d <= 0.5+65535*tol+1e-9) {
							r.Violate(sp.Name+"/LineariseColor", fmt.Sprintf("%s LineariseColor channel %d of code %d = %v, 65535*EOTF = %.4f", sp.Name, ci, int(pair[1]), pair[0], want), nil, nil)
						}
					}
					if lin.A != 65535 {
						r.Violate(sp.Name+"/LineariseColor/alpha", fmt.Sprintf("%s LineariseColor opaque alpha=%d", sp.Name, lin.A), nil, nil)
					}
				}
			}
			// every other colour type: the colour's own RGBA() defines its 16-bit codes
			otherColour := func(entry string, col color.Color) {
				r16, g16, b16, a16 := col.RGBA()
				if a16 != 0xffff {
					return
				}
				c7, a7 := sp.FromEncodedColor(col)
				r.Eval(1)
				chk(sp, "ColorFromEncodedColor("+entry+").R", int(r16), 65535, c7.R)
				chk(sp, "ColorFromEncodedColor("+entry+").G", int(g16), 65535, c7.G)
				chk(sp, "ColorFromEncodedColor("+entry+").B", int(b16), 65535, c7.B)
				if a7 != 1 {
					r.Violate(sp.Name+"/ColorFromEncodedColor("+entry+")/alpha", fmt.Sprintf("%s ColorFromEncodedColor(%s %v) opaque alpha=%g", sp.Name, entry, col, a7), nil, nil)
				}
				lin := sp.Linearise(col)
				for ci, pair := range [3][2]float64{{float64(lin.R), float64(r16)}, {float64(lin.G), float64(g16)}, {float64(lin.B), float64(b16)}} {
					want := 65535 * sp.Curve.EOTF(pair[1]/65535)
					if d := math.Abs(pair[0] - want); !(d <= 0.5+65535*tol+1e-9) {
						r.Violate(sp.Name+"/LineariseColor("+entry+")", fmt.Sprintf("%s LineariseColor(%s %v) channel %d = %v, 65535*EOTF = %.4f", sp.Name, entry, col, ci, pair[0], want), nil, nil)
					}
				}
			}
			for v := 0; v < 256; v++ {
				otherColour("Gray", color.Gray{Y: uint8(v)})
				otherColour("CMYK", color.CMYK{C: uint8(v), M: uint8(255 - v), Y: uint8(v / 2), K: uint8(v / 3)})
				otherColour("Alpha", color.Alpha{A: 255})
				for _, cb := range []uint8{0, 100, 128, 255} {
					otherColour("YCbCr", color.YCbCr{Y: uint8(v), Cb: cb, Cr: uint8(255 - int(cb))})
					otherColour("NYCbCrA", color.NYCbCrA{YCbCr: color.YCbCr{Y: uint8(v), Cb: cb, Cr: 77}, A: 255})
				}
			}
			for v := 0; v < 65536; v++ {
				otherColour("Gray16", color.Gray16{Y: uint16(v)})
				otherColour("custom", customColour{uint32(v), uint32(65535 - v), uint32(v/2 + 7)})
			}
			otherColour("Alpha16", color.Alpha16{A: 65535})
			if pass == 0 {
				continue
			}
			r.Sample(map[string]interface{}{"space": sp.Name, "entry": "ColorFromEncodedColor(NRGBA64)", "code": 32768,
				"decoded": func() float32 { c, _ := sp.FromEncodedColor(color.NRGBA64{R: 32768, A: 65535}); return c.R }(), "reference": sp.Curve.EOTF(32768.0 / 65535)})
		}
	}
	r.Set("passes", 2)
	if os.Getenv("VERIF_SUBRUN") == "" {
		for _, gmp := range []string{"1", "3", "7"} {
			subRun(r, "C01", tier, "GOMAXPROCS="+gmp, "GOMAXPROCS="+gmp)
		}
	}
	r.Finish()
}
