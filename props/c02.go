package props

import (
	"fmt"
	"image/color"
	"math"
	"os"
	"sync"
	"sync/atomic"

	"github.com/mandykoh/prism/linear"

	"verif/engine/ev"
	"verif/refs"
)

type encFn struct {
	name  string
	f     func(float32) uint32
	max   uint32
	h     float64 // half table step in x (0 for plain quantisers)
	oetf  func(float64) float64
	plain bool
}

func c02Encoders() []encFn {
	var out []encFn
	for i := range Spaces {
		sp := &Spaces[i]
		if sp.To8 == nil {
			continue
		}
		to8, to16 := sp.To8, sp.To16
		out = append(out,
			encFn{name: sp.Name + ".To8Bit", f: func(x float32) uint32 { return uint32(to8(x)) }, max: 255, h: 0.5 / 511, oetf: sp.Curve.OETF},
			encFn{name: sp.Name + ".To16Bit", f: func(x float32) uint32 { return uint32(to16(x)) }, max: 65535, h: 0.5 / 65535, oetf: sp.Curve.OETF},
		)
	}
	id := func(x float64) float64 { return x }
	out = append(out,
		encFn{name: "linear.NormalisedTo8Bit", f: func(x float32) uint32 { return uint32(linear.NormalisedTo8Bit(x)) }, max: 255, oetf: id, plain: true},
		encFn{name: "linear.NormalisedTo9Bit", f: func(x float32) uint32 { return uint32(linear.NormalisedTo9Bit(x)) }, max: 511, oetf: id, plain: true},
		encFn{name: "linear.NormalisedTo16Bit", f: func(x float32) uint32 { return uint32(linear.NormalisedTo16Bit(x)) }, max: 65535, oetf: id, plain: true},
	)
	return out
}

// encBounds returns the closed interval of codes the property allows for x in [0,1].
func encBounds(e *encFn, x float64) (lo, hi float64) {
	M := float64(e.max)
	eps := M*3e-7 + 1e-4
	h := e.h*1.01 + 1e-9
	if e.plain {
		h = 0
	}
	xl, xh := x-h, x+h
	if xl < 0 {
		xl = 0
	}
	if xh > 1 {
		xh = 1
	}
	return M*e.oetf(xl) - 0.5 - eps, M*e.oetf(xh) + 0.5 + eps
}

// C02: encoders are clipped, monotone and accurate for every float32.
func C02(tier string) {
	r := ev.Begin("C02", tier, "exploration")
	order := os.Getenv("VERIF_ORDER")
	if order == "" {
		order = "decode16-first"
	}
	// Lazy-table order: the 16-bit decode and encode tables are built on first
	// use; this process fixes one order, a child process runs the other.
	if order == "decode16-first" {
		for i := range Spaces {
			if Spaces[i].From16 != nil {
				_ = Spaces[i].From16(12345)
			}
			_, _ = Spaces[i].FromEncodedColor(color.NRGBA64{R: 1, G: 2, B: 3, A: 65535})
		}
	}
	r.Set("first_use_order", order)

	encs := c02Encoders()
	var segs []keySeg
	if os.Getenv("VERIF_C02_LIGHT") != "" {
		// configuration children: boundary alphabet, dense ends of [0,1], every 2048th float in between
		segs = f32QuickSegs()
		var light []keySeg
		for _, sg := range segs {
			if sg.hi-sg.lo < 100000 {
				light = append(light, sg)
				continue
			}
			light = append(light, keySeg{sg.lo, sg.lo + 1<<16})
			for k := sg.lo + 1<<16 + 2048; k+2 < sg.hi-1<<20; k += 2048 {
				light = append(light, keySeg{k, k + 1})
			}
			light = append(light, keySeg{sg.hi - 1<<20, sg.hi})
		}
		segs = light
		r.NotExhaustive()
		r.Rule("light configuration run: boundary alphabet, the 2^16 smallest and 2^20 largest floats of [0,1], every 2048th float in between")
	} else if tier == "thorough" {
		segs = f32AllSegs()
		r.Rule("every non-NaN float32 bit pattern (4,278,190,082 values) walked in increasing numeric order through each of 6 curve encoders and 3 quantisers, then every NaN payload (no-panic only)")
	} else {
		segs = f32QuickSegs()
		r.NotExhaustive()
		r.Rule("every float32 in [-1024 ulp below -0, 1+4096 ulp] (complete, ~1.07e9 values) plus +/-2 ulp around every power of two and its 1.5x midpoint over the whole exponent range, both signs, +/-Inf, +/-MaxFloat32, walked in increasing numeric order through each of 6 curve encoders and 3 quantisers; NaN: 12 payloads")
	}
	r.Rule("child processes: the other lazy-table first-use order (full walk) and GOMAXPROCS in {1,3,7,12} (light walk)")
	r.Rule("oracle per x: x<=0 -> 0, x>=1 -> max, never decreasing along the walk, for 0<=x<=1 code within [M*OETF(x-h)-1/2-eps, M*OETF(x+h)+1/2+eps] checked at both ends of every maximal run of equal codes (sufficient because both bounds are non-decreasing in x); distinct = number of (encoder, run) pairs")
	r.Assume("reference OETFs are the float64 inverse formulas of IEC 61966-2-1, Adobe RGB (1998), ISO 22028-2; h = half a table step (1/1022 or 1/131070) widened by 1%, eps = M*3e-7+1e-4 for float32 rounding inside the encoder")
	chunks := f32Chunks(segs, 1<<21)

	var next atomic.Int64
	var runs atomic.Int64
	var mu sync.Mutex
	_ = mu
	r.Par(ev.Workers(), func(shard, n int) {
		for {
			ci := int(next.Add(1) - 1)
			if ci >= len(chunks) || r.NViolations() > 20 {
				return
			}
			ch := chunks[ci]
			for ei := range encs {
				e := &encs[ei]
				nruns := c02Chunk(r, e, ch)
				runs.Add(nruns)
			}
			r.Eval(int64(ch.hi-ch.lo+1) * int64(len(encs)))
		}
	})
	r.DistinctN(runs.Load())

	// NaNs: must return (any code is in range)
	nanCheck := func(bits uint32) {
		x := math.Float32frombits(bits)
		for ei := range encs {
			e := &encs[ei]
			func() {
				defer func() {
					if p := recover(); p != nil {
						r.Violate(e.name+"/nan-panic", fmt.Sprintf("%s(NaN bits %#x) panicked: %v", e.name, bits, p), map[string]interface{}{"bits": bits}, nil)
					}
				}()
				_ = e.f(x)
			}()
		}
		r.Eval(int64(len(encs)))
	}
	if tier == "thorough" {
		r.Par(ev.Workers(), func(shard, n int) {
			for m := uint32(1 + shard); m < 1<<23; m += uint32(n) {
				nanCheck(0x7F800000 | m)
				nanCheck(0xFF800000 | m)
			}
		})
	} else {
		for _, b := range []uint32{0x7FC00000, 0xFFC00000, 0x7F800001, 0xFF800001, 0x7FFFFFFF, 0xFFFFFFFF, 0x7FA00000, 0xFFA00000, 0x7FC00001, 0x7F8FFFFF, 0x7FBFFFFF, 0xFFBFFFFF} {
			nanCheck(b)
		}
	}

	c02ColourRoutes(r)

	r.Sample(map[string]interface{}{"encoder": "srgb.To8Bit", "x": 0.5, "code": Spaces[0].To8(0.5), "reference_255*OETF": 255 * refs.SRGB.OETF(0.5)})
	r.Sample(map[string]interface{}{"encoder": "prophotorgb.To16Bit", "x": 0.001, "code": Spaces[2].To16(0.001), "reference_65535*OETF": 65535 * refs.ProPhoto.OETF(0.001)})
	r.Sample(map[string]interface{}{"encoder": "linear.NormalisedTo16Bit", "x": "+Inf", "code": linear.NormalisedTo16Bit(float32(math.Inf(1)))})

	// other first-use order in a child process
	if os.Getenv("VERIF_SUBRUN") == "" {
		var cw sync.WaitGroup
		cw.Add(1)
		go func() { defer cw.Done(); subRunOrder(r, "C02", tier, "encode16-first") }()
		// the tables must not depend on the scheduler configuration they were built under
		for _, gmp := range []string{"1", "3", "7", "12"} {
			gmp := gmp
			cw.Add(1)
			go func() {
				defer cw.Done()
				subRun(r, "C02", tier, "GOMAXPROCS="+gmp, "GOMAXPROCS="+gmp, "VERIF_C02_LIGHT=1", "VERIF_WORKERS=4")
			}()
		}
		cw.Wait()
	}
	r.Finish()
}

func c02Chunk(r *ev.Run, e *encFn, ch f32Chunk) (nruns int64) {
	var curKey uint64
	defer func() {
		if p := recover(); p != nil {
			x := f32FromKey(curKey)
			r.Violate(e.name+"/panic", fmt.Sprintf("%s(%g) [bits %#08x] panicked: %v", e.name, x, math.Float32bits(x), p),
				map[string]interface{}{"encoder": e.name, "bits": math.Float32bits(x)}, nil)
		}
	}()
	bad := func(kind string, x float32, code uint32, extra string) {
		bits := math.Float32bits(x)
		r.Violate(e.name+"/"+kind, fmt.Sprintf("%s(%.9g) [bits %#08x] = %d: %s", e.name, x, bits, code, extra),
			map[string]interface{}{"encoder": e.name, "bits": bits, "code": code},
			func() bool { return e.f(math.Float32frombits(bits)) == code })
	}
	checkLo := func(x float32, code uint32) { // code must not be too small for x
		if x >= 0 && x <= 1 {
			if lo, _ := encBounds(e, float64(x)); float64(code) < lo {
				bad("too-low", x, code, fmt.Sprintf("below the allowed minimum %.4f", lo))
			}
		}
	}
	checkHi := func(x float32, code uint32) {
		if x >= 0 && x <= 1 {
			if _, hi := encBounds(e, float64(x)); float64(code) > hi {
				bad("too-high", x, code, fmt.Sprintf("above the allowed maximum %.4f", hi))
			}
		}
	}
	havePrev := false
	var prevX float32
	var prevCode uint32
	if ch.prev >= 0 {
		curKey = uint64(ch.prev)
		prevX = f32FromKey(curKey)
		prevCode = e.f(prevX)
		havePrev = true
	}
	f, max := e.f, e.max
	for k := ch.lo; k <= ch.hi; k++ {
		curKey = k
		x := f32FromKey(k)
		c := f(x)
		if x <= 0 {
			if c != 0 {
				bad("clip-low", x, c, "x <= 0 must give 0")
			}
		} else if x >= 1 {
			if c != max {
				bad("clip-high", x, c, fmt.Sprintf("x >= 1 must give %d", max))
			}
		}
		if !havePrev {
			checkHi(x, c)
			checkLo(x, c)
			nruns++
		} else if c != prevCode {
			if c < prevCode {
				bad("monotone", x, c, fmt.Sprintf("decreased from %d at the preceding value %.9g", prevCode, prevX))
			}
			checkLo(prevX, prevCode)
			checkHi(x, c)
			nruns++
		}
		prevX, prevCode, havePrev = x, c, true
	}
	checkLo(prevX, prevCode)
	return
}

// c02ColourRoutes checks the same law through the colour types of all four
// spaces on the set of table-bucket boundaries.
func c02ColourRoutes(r *ev.Run) {
	var xs []float32
	addAround := func(v float64) {
		x := float32(v)
		for d := -2; d <= 2; d++ {
			k := int64(f32Key(x)) + int64(d)
			if k >= 0 && k <= f32KeyMax {
				xs = append(xs, f32FromKey(uint64(k)))
			}
		}
	}
	for k := 0; k <= 511; k++ {
		addAround(float64(k) / 511)
		addAround((float64(k) + 0.5) / 511)
	}
	for k := 0; k <= 65535; k += 1 {
		addAround(float64(k) / 65535)
		addAround((float64(k) + 0.5) / 65535)
	}
	for _, v := range []float64{-1, -0.5, -1e-30, 1.0000001, 1.5, 2, 1e10, 1e15, 1e20, 3e38, math.Inf(1), math.Inf(-1)} {
		xs = append(xs, float32(v))
	}
	r.Par(ev.Workers(), func(shard, n int) {
		for si := range Spaces {
			sp := &Spaces[si]
			e8 := encFn{name: sp.Name + ".Color.ToNRGBA/ToRGBA", max: 255, h: 0.5 / 511, oetf: sp.Curve.OETF}
			e16 := encFn{name: sp.Name + ".Color.ToRGBA64/EncodeColor", max: 65535, h: 0.5 / 65535, oetf: sp.Curve.OETF}
			chk := func(e *encFn, route string, x float32, code uint32) {
				if math.IsNaN(float64(x)) {
					return
				}
				ok := true
				why := ""
				switch {
				case x <= 0:
					ok, why = code == 0, "x <= 0 must give 0"
				case x >= 1:
					ok, why = code == e.max, "x >= 1 must give max"
				default:
					lo, hi := encBounds(e, float64(x))
					ok, why = float64(code) >= lo && float64(code) <= hi, fmt.Sprintf("allowed [%.4f, %.4f]", lo, hi)
				}
				if !ok {
					r.Violate(sp.Name+"/"+route, fmt.Sprintf("%s %s(%.9g) = %d: %s", sp.Name, route, x, code, why),
						map[string]interface{}{"space": sp.Name, "route": route, "bits": math.Float32bits(x)}, nil)
				}
			}
			for i := shard; i < len(xs); i += n {
				x := xs[i]
				y := xs[(i+len(xs)/3)%len(xs)]
				z := xs[(i+2*len(xs)/3)%len(xs)]
				func() {
					defer func() {
						if p := recover(); p != nil {
							r.Violate(sp.Name+"/colour-route-panic", fmt.Sprintf("%s colour encode of (%g,%g,%g) panicked: %v", sp.Name, x, y, z, p), nil, nil)
						}
					}()
					c := linear.RGB{R: x, G: y, B: z}
					n8 := sp.ToNRGBA(c, 1)
					chk(&e8, "ToNRGBA.R", x, uint32(n8.R))
					chk(&e8, "ToNRGBA.G", y, uint32(n8.G))
					chk(&e8, "ToNRGBA.B", z, uint32(n8.B))
					p8 := sp.ToRGBA(c, 1)
					chk(&e8, "ToRGBA.R", x, uint32(p8.R))
					chk(&e8, "ToRGBA.G", y, uint32(p8.G))
					chk(&e8, "ToRGBA.B", z, uint32(p8.B))
					p16 := sp.ToRGBA64(c, 1)
					chk(&e16, "ToRGBA64.R", x, uint32(p16.R))
					chk(&e16, "ToRGBA64.G", y, uint32(p16.G))
					chk(&e16, "ToRGBA64.B", z, uint32(p16.B))
					if n8.A != 255 || p8.A != 255 || p16.A != 65535 {
						r.Violate(sp.Name+"/colour-route-alpha", fmt.Sprintf("%s opaque encode produced alpha %d/%d/%d", sp.Name, n8.A, p8.A, p16.A), nil, nil)
					}
				}()
				r.Eval(3)
			}
			// EncodeColor: every 16-bit linear code, opaque
			for v := shard; v < 65536; v += n {
				g, b := (v+21845)%65536, (v+43690)%65536
				out := sp.Encode(color.RGBA64{R: uint16(v), G: uint16(g), B: uint16(b), A: 65535})
				chk(&e16, "EncodeColor.R", float32(v)/65535, uint32(out.R))
				chk(&e16, "EncodeColor.G", float32(g)/65535, uint32(out.G))
				chk(&e16, "EncodeColor.B", float32(b)/65535, uint32(out.B))
				if out.A != 65535 {
					r.Violate(sp.Name+"/EncodeColor-alpha", fmt.Sprintf("%s EncodeColor opaque alpha %d", sp.Name, out.A), nil, nil)
				}
				r.Eval(1)
			}
		}
	})
	r.DistinctN(int64(len(xs)))
}
