package props

import (
	"fmt"
	"math"
	"sort"

	"github.com/mandykoh/prism/ciexyy"
	"github.com/mandykoh/prism/ciexyz"
	"github.com/mandykoh/prism/linear"

	"verif/engine/ev"
	"verif/refs"
)

// geoAxis is the geometric part of every real-valued lattice: 0, +/-2^-k and
// +/-1.5*2^-k down to 2^-24, values hugging 1 from both sides, and a few
// out-of-range magnitudes. Uniform lattices never land in narrow bands next
// to 0 or next to 1; this does.
func geoAxis() []float32 {
	set := map[float32]bool{0: true}
	for k := 0; k <= 24; k++ {
		p := math.Ldexp(1, -k)
		for _, v := range []float64{p, 1.5 * p, 1 - p, 1 + p} {
			set[float32(v)] = true
			set[float32(-v)] = true
		}
	}
	for _, v := range []float64{2, -2, 1.5, -1.5, 0.3, -0.3, 0.7} {
		set[float32(v)] = true
	}
	var out []float32
	for v := range set {
		out = append(out, v)
	}
	sort.Slice(out, func(i, j int) bool { return out[i] < out[j] })
	return out
}

func xyOf(c ciexyy.Color) refs.XY { return refs.XY{X: float64(c.X), Y: float64(c.Y)} }

// declaredMatrix is the float64 RGB->XYZ matrix derived from the chromaticities
// the package declares (taken as exact float64 values of the declared float32).
func declaredMatrix(sp *Space) refs.M3 {
	return refs.RGBToXYZ(xyOf(sp.PrimR()), xyOf(sp.PrimG()), xyOf(sp.PrimB()), xyOf(sp.White()))
}

// C03: the XYZ transforms are the ones fixed by primaries and white point.
func C03(tier string) {
	r := ev.Begin("C03", tier, "exploration")
	r.NotExhaustive()
	r.Assume("RGB<->XYZ are checked on finite lattices (uniform 8-bit-style lattice plus a geometric lattice around 0 and 1, in and out of range); between lattice points the claim rests on the additivity check, which any non-affine behaviour on the lattice violates")
	r.Assume("published chromaticities: IEC 61966-2-1, Adobe RGB (1998), ISO 22028-2, DCI-P3 D65 (Display P3); 5e-5 tolerance for 4-decimal publication")
	steps := 64
	if tier == "thorough" {
		steps = 1024
	}
	r.Rule(fmt.Sprintf("per space: 9+9 coefficients recovered by probing unit vectors; declared vs published chromaticities; uniform lattice {0..%d}^3/%d and geometric lattice G^3 (|G|=%d: 0, +/-2^-k, +/-1.5*2^-k, +/-(1+/-2^-k), k<=24) and uniform lattices over [-1,2]^3 (steps 1/64 and 1/100; thorough also 1/32, 1/63, 1/127, 1/128, 1/255) for additivity and both round trips; distinct = lattice points with at least two non-zero components", steps-1, steps-1, len(geoAxis())))

	// Before any colour type is used in this process: ask the matrix generator
	// for every space's declared primaries with OTHER white points, so that
	// state keyed on less than the full request (and lazily derived matrices)
	// would be caught starting from a non-initial state.
	for si := range Spaces {
		sp := &Spaces[si]
		for _, w := range []ciexyy.Color{ciexyy.D50, ciexyy.D65, {X: 0.314, Y: 0.351, YY: 1}, {X: 1.0 / 3, Y: 1.0 / 3, YY: 1}} {
			if w != sp.White() {
				_ = ciexyz.TransformToXYZForXYYPrimaries(sp.PrimR(), sp.PrimG(), sp.PrimB(), w)
				_ = ciexyz.TransformFromXYZForXYYPrimaries(sp.PrimR(), sp.PrimG(), sp.PrimB(), w)
			}
		}
	}
	geo := geoAxis()
	for si := range Spaces {
		sp := &Spaces[si]
		M := declaredMatrix(sp)
		Minv, _ := M.Inv()

		// (b) declared vs published
		for _, pr := range []struct {
			n    string
			d, p refs.XY
		}{{"red", xyOf(sp.PrimR()), sp.Pub.R}, {"green", xyOf(sp.PrimG()), sp.Pub.G}, {"blue", xyOf(sp.PrimB()), sp.Pub.B}, {"white", xyOf(sp.White()), sp.Pub.W}} {
			r.Eval(1)
			if math.Abs(pr.d.X-pr.p.X) > 5e-5 || math.Abs(pr.d.Y-pr.p.Y) > 5e-5 {
				r.Violate(sp.Name+"/declared-"+pr.n, fmt.Sprintf("%s declares %s = (%.6f, %.6f), published (%.4f, %.4f)", sp.Name, pr.n, pr.d.X, pr.d.Y, pr.p.X, pr.p.Y), nil, nil)
			}
		}
		if sp.White().YY != 1 || sp.PrimR().YY != 1 || sp.PrimG().YY != 1 || sp.PrimB().YY != 1 {
			r.Violate(sp.Name+"/declared-Y", sp.Name+" declares a primary or white with Y != 1", nil, nil)
		}

		// (a) coefficients by probing
		unit := []linear.RGB{{R: 1}, {G: 1}, {B: 1}}
		var cols [3]ciexyz.Color
		for k, u := range unit {
			cols[k] = sp.ToXYZ(u)
			got := [3]float64{float64(cols[k].X), float64(cols[k].Y), float64(cols[k].Z)}
			for row := 0; row < 3; row++ {
				r.Eval(1)
				if d := math.Abs(got[row] - M[row][k]); !(d <= 1e-6) {
					r.Violate(fmt.Sprintf("%s/ToXYZ-coeff[%d][%d]", sp.Name, row, k), fmt.Sprintf("%s ToXYZ coefficient row %d col %d = %.9g, derived from declared chromaticities %.9g", sp.Name, row, k, got[row], M[row][k]), nil, nil)
				}
			}
			// unit primary has the primary's chromaticity
			sum := got[0] + got[1] + got[2]
			decl := []refs.XY{xyOf(sp.PrimR()), xyOf(sp.PrimG()), xyOf(sp.PrimB())}[k]
			if math.Abs(got[0]/sum-decl.X) > 1e-6 || math.Abs(got[1]/sum-decl.Y) > 1e-6 {
				r.Violate(fmt.Sprintf("%s/primary-chromaticity[%d]", sp.Name, k), fmt.Sprintf("%s unit primary %d maps to chromaticity (%.7f, %.7f), declared (%.7f, %.7f)", sp.Name, k, got[0]/sum, got[1]/sum, decl.X, decl.Y), nil, nil)
			}
		}
		w := sp.ToXYZ(linear.RGB{R: 1, G: 1, B: 1})
		wref := refs.XYZFromXYY(xyOf(sp.White()).X, xyOf(sp.White()).Y, 1)
		r.Eval(1)
		if math.Abs(float64(w.X)-wref[0]) > 1e-6 || math.Abs(float64(w.Y)-1) > 1e-6 || math.Abs(float64(w.Z)-wref[2]) > 1e-6 {
			r.Violate(sp.Name+"/white", fmt.Sprintf("%s (1,1,1) maps to (%.7f, %.7f, %.7f), white point is (%.7f, 1, %.7f)", sp.Name, w.X, w.Y, w.Z, wref[0], wref[2]), nil, nil)
		}
		xunit := []ciexyz.Color{{X: 1}, {Y: 1}, {Z: 1}}
		var icol [3]linear.RGB
		for k, u := range xunit {
			icol[k] = sp.FromXYZ(u)
			got := [3]float64{float64(icol[k].R), float64(icol[k].G), float64(icol[k].B)}
			for row := 0; row < 3; row++ {
				r.Eval(1)
				if d := math.Abs(got[row] - Minv[row][k]); !(d <= 1e-6*math.Max(1, math.Abs(Minv[row][k]))) {
					r.Violate(fmt.Sprintf("%s/FromXYZ-coeff[%d][%d]", sp.Name, row, k), fmt.Sprintf("%s ColorFromXYZ coefficient row %d col %d = %.9g, inverse of the derived matrix %.9g", sp.Name, row, k, got[row], Minv[row][k]), nil, nil)
				}
			}
		}
		r.Sample(map[string]interface{}{"space": sp.Name, "probe": "ToXYZ(1,0,0)", "got": []float32{cols[0].X, cols[0].Y, cols[0].Z}, "derived": []float64{M[0][0], M[1][0], M[2][0]}})

		normM, normI := M.NormInf(), Minv.NormInf()

		// (c) lattices
		checkRGB := func(p linear.RGB) {
			mag := math.Max(1, math.Max(math.Abs(float64(p.R)), math.Max(math.Abs(float64(p.G)), math.Abs(float64(p.B)))))
			x := sp.ToXYZ(p)
			// against the float64 map (covers additivity: the reference is linear)
			ref := M.MulV(refs.V3{float64(p.R), float64(p.G), float64(p.B)})
			tol := 1.5e-6 * mag * normM
			if d := math.Max(math.Abs(float64(x.X)-ref[0]), math.Max(math.Abs(float64(x.Y)-ref[1]), math.Abs(float64(x.Z)-ref[2]))); !(d <= tol) && !r.Seen(sp.Name+"/ToXYZ-linear") {
				r.Violate(sp.Name+"/ToXYZ-linear", fmt.Sprintf("%s ToXYZ(%g,%g,%g) = (%g,%g,%g), linear map gives (%.9g,%.9g,%.9g) (|diff| %.3g > %.3g)", sp.Name, p.R, p.G, p.B, x.X, x.Y, x.Z, ref[0], ref[1], ref[2], d, tol),
					map[string]interface{}{"space": sp.Name, "rgb": []float32{p.R, p.G, p.B}}, nil)
			}
			// additivity on the implementation's own columns
			add := [3]float64{
				float64(p.R)*float64(cols[0].X) + float64(p.G)*float64(cols[1].X) + float64(p.B)*float64(cols[2].X),
				float64(p.R)*float64(cols[0].Y) + float64(p.G)*float64(cols[1].Y) + float64(p.B)*float64(cols[2].Y),
				float64(p.R)*float64(cols[0].Z) + float64(p.G)*float64(cols[1].Z) + float64(p.B)*float64(cols[2].Z),
			}
			tolA := 6e-7 * mag * normM
			if d := math.Max(math.Abs(float64(x.X)-add[0]), math.Max(math.Abs(float64(x.Y)-add[1]), math.Abs(float64(x.Z)-add[2]))); !(d <= tolA) && !r.Seen(sp.Name+"/ToXYZ-additive") {
				r.Violate(sp.Name+"/ToXYZ-additive", fmt.Sprintf("%s ToXYZ(%g,%g,%g) = (%g,%g,%g) is not R*f(e1)+G*f(e2)+B*f(e3) = (%.9g,%.9g,%.9g)", sp.Name, p.R, p.G, p.B, x.X, x.Y, x.Z, add[0], add[1], add[2]),
					map[string]interface{}{"space": sp.Name, "rgb": []float32{p.R, p.G, p.B}}, nil)
			}
			back := sp.FromXYZ(x)
			tolR := 2e-6 * mag
			if mag > 1 || p.R < 0 || p.G < 0 || p.B < 0 {
				tolR = 2e-6 * mag * math.Max(1, normM*normI/4)
			}
			if d := math.Max(math.Abs(float64(back.R-p.R)), math.Max(math.Abs(float64(back.G-p.G)), math.Abs(float64(back.B-p.B)))); !(d <= tolR) && !r.Seen(sp.Name+"/roundtrip-RGB") {
				r.Violate(sp.Name+"/roundtrip-RGB", fmt.Sprintf("%s RGB->XYZ->RGB of (%g,%g,%g) returns (%g,%g,%g) (|diff| %.3g > %.3g)", sp.Name, p.R, p.G, p.B, back.R, back.G, back.B, d, tolR),
					map[string]interface{}{"space": sp.Name, "rgb": []float32{p.R, p.G, p.B}}, nil)
			}
		}
		checkXYZ := func(c ciexyz.Color) {
			mag := math.Max(1, math.Max(math.Abs(float64(c.X)), math.Max(math.Abs(float64(c.Y)), math.Abs(float64(c.Z)))))
			p := sp.FromXYZ(c)
			ref := Minv.MulV(refs.V3{float64(c.X), float64(c.Y), float64(c.Z)})
			tol := 1.5e-6 * mag * normI
			if d := math.Max(math.Abs(float64(p.R)-ref[0]), math.Max(math.Abs(float64(p.G)-ref[1]), math.Abs(float64(p.B)-ref[2]))); !(d <= tol) && !r.Seen(sp.Name+"/FromXYZ-linear") {
				r.Violate(sp.Name+"/FromXYZ-linear", fmt.Sprintf("%s ColorFromXYZ(%g,%g,%g) = (%g,%g,%g), inverse linear map gives (%.9g,%.9g,%.9g) (|diff| %.3g > %.3g)", sp.Name, c.X, c.Y, c.Z, p.R, p.G, p.B, ref[0], ref[1], ref[2], d, tol),
					map[string]interface{}{"space": sp.Name, "xyz": []float32{c.X, c.Y, c.Z}}, nil)
			}
			back := sp.ToXYZ(p)
			tolR := 2e-6 * mag * math.Max(1, normM*normI/4)
			if d := math.Max(math.Abs(float64(back.X-c.X)), math.Max(math.Abs(float64(back.Y-c.Y)), math.Abs(float64(back.Z-c.Z)))); !(d <= tolR) && !r.Seen(sp.Name+"/roundtrip-XYZ") {
				r.Violate(sp.Name+"/roundtrip-XYZ", fmt.Sprintf("%s XYZ->RGB->XYZ of (%g,%g,%g) returns (%g,%g,%g) (|diff| %.3g > %.3g)", sp.Name, c.X, c.Y, c.Z, back.X, back.Y, back.Z, d, tolR),
					map[string]interface{}{"space": sp.Name, "xyz": []float32{c.X, c.Y, c.Z}}, nil)
			}
		}

		r.Par(ev.Workers(), func(shard, n int) {
			var evals, distinct int64
			for a := shard; a < steps; a += n {
				for b := 0; b < steps; b++ {
					for c := 0; c < steps; c++ {
						p := linear.RGB{R: float32(a) / float32(steps-1), G: float32(b) / float32(steps-1), B: float32(c) / float32(steps-1)}
						checkRGB(p)
						// in-gamut XYZ reached from this RGB, as float32
						checkXYZ(sp.ToXYZ(p))
						evals += 2
						nz := 0
						if a > 0 {
							nz++
						}
						if b > 0 {
							nz++
						}
						if c > 0 {
							nz++
						}
						if nz >= 2 {
							distinct++
						}
					}
				}
			}
			// uniform lattices over the out-of-range cube [-1,2]^3 with several steps
			outSteps := []int{64, 100}
			if tier == "thorough" {
				outSteps = []int{32, 63, 64, 100, 127, 128, 255}
			}
			for _, st := range outSteps {
				m := 3*st + 1
				for a := shard; a < m; a += n {
					for b := 0; b < m; b++ {
						for c := 0; c < m; c++ {
							p := linear.RGB{R: float32(a-st) / float32(st), G: float32(b-st) / float32(st), B: float32(c-st) / float32(st)}
							checkRGB(p)
							evals++
						}
					}
				}
			}
			for i := shard; i < len(geo); i += n {
				for _, g := range geo {
					for _, b := range geo {
						checkRGB(linear.RGB{R: geo[i], G: g, B: b})
						checkXYZ(ciexyz.Color{X: geo[i], Y: g, Z: b})
						evals += 2
						if g != 0 && b != 0 {
							distinct += 2
						}
					}
				}
			}
			r.Eval(evals)
			r.DistinctN(distinct)
		})
	}
	r.Finish()
}
