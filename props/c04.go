package props

import (
	"fmt"
	"image/color"
	"math"
	"os"
	"strconv"

	"github.com/mandykoh/prism/ciexyz"

	"verif/engine/ev"
	"verif/refs"
)

type c04Pair struct {
	src, dst *Space
	T        refs.M3 // float64 linear src RGB -> linear dst RGB
	adapt    bool
	ca       ciexyz.ChromaticAdaptation
	delta    float64
	eotf     [256]float64
}

func c04Pairs() []c04Pair {
	var out []c04Pair
	for i := range Spaces {
		for j := range Spaces {
			s, d := &Spaces[i], &Spaces[j]
			p := c04Pair{src: s, dst: d}
			Ms := declaredMatrix(s)
			Md := declaredMatrix(d)
			Mdi, _ := Md.Inv()
			T := Ms
			if s.White() != d.White() {
				p.adapt = true
				p.ca = ciexyz.AdaptBetweenXYYWhitePoints(s.White(), d.White())
				ws := refs.XYZFromXYY(float64(s.White().X), float64(s.White().Y), 1)
				wd := refs.XYZFromXYY(float64(d.White().X), float64(d.White().Y), 1)
				T = refs.BradfordAdapt(ws, wd).Mul(T)
			}
			p.T = Mdi.Mul(T)
			p.delta = 1.2e-6*Mdi.NormInf() + 1e-6
			for c := 0; c < 256; c++ {
				p.eotf[c] = s.Curve.EOTF(float64(c) / 255)
			}
			out = append(out, p)
		}
	}
	return out
}

// C04: the documented cross-space pipeline against a float64 reference.
func C04(tier string) {
	r := ev.Begin("C04", tier, "exploration")
	pairs := c04Pairs()
	const h = 0.5 / 511
	r.Assume("reference: standards' transfer functions, matrices derived in float64 from the chromaticities each package declares, linear Bradford adaptation when the declared white points differ")
	r.Assume("tolerance per channel = the encoder law of C02: code within half a code of 255*OETF evaluated within half a 9-bit table step (1/1022) of the reference linear value, widened by delta = 1.2e-6*|Minv_dst|+1e-6 for the float32 pipeline")

	conv := func(p *c04Pair, c color.NRGBA) color.NRGBA {
		lin, alpha := p.src.FromNRGBA(c)
		xyz := p.src.ToXYZ(lin)
		if p.adapt {
			xyz = p.ca.Apply(xyz)
		}
		return p.dst.ToNRGBA(p.dst.FromXYZ(xyz), alpha)
	}
	check := func(p *c04Pair, c color.NRGBA) {
		var out color.NRGBA
		panicked := true
		func() {
			defer func() {
				if pn := recover(); pn != nil {
					r.Violate(fmt.Sprintf("%s->%s/panic", p.src.Name, p.dst.Name), fmt.Sprintf("%s->%s pixel %v: the conversion panicked: %v", p.src.Name, p.dst.Name, c, pn),
						map[string]interface{}{"src": p.src.Name, "dst": p.dst.Name, "pixel": []uint8{c.R, c.G, c.B, c.A}}, nil)
				}
			}()
			out = conv(p, c)
			panicked = false
		}()
		if panicked {
			return
		}
		ref := p.T.MulV(refs.V3{p.eotf[c.R], p.eotf[c.G], p.eotf[c.B]})
		got := [3]uint8{out.R, out.G, out.B}
		for ch := 0; ch < 3; ch++ {
			xl, xh := ref[ch]-h*1.01-p.delta, ref[ch]+h*1.01+p.delta
			if xl < 0 {
				xl = 0
			}
			if xl > 1 {
				xl = 1
			}
			if xh > 1 {
				xh = 1
			}
			if xh < 0 {
				xh = 0
			}
			lo := 255*p.dst.Curve.OETF(xl) - 0.5 - 2e-4
			hi := 255*p.dst.Curve.OETF(xh) + 0.5 + 2e-4
			if g := float64(got[ch]); (g < lo || g > hi) && !r.Seen(p.src.Name+"->"+p.dst.Name+"/channel") {
				r.Violate(fmt.Sprintf("%s->%s/channel", p.src.Name, p.dst.Name),
					fmt.Sprintf("%s->%s pixel %v gives %v: channel %d = %d, reference linear value %.7f allows [%.3f, %.3f]", p.src.Name, p.dst.Name, c, out, ch, got[ch], ref[ch], lo, hi),
					map[string]interface{}{"src": p.src.Name, "dst": p.dst.Name, "pixel": []uint8{c.R, c.G, c.B, c.A}},
					func() bool { return conv(p, c) == out })
			}
		}
		if out.A != c.A && !r.Seen(p.src.Name+"->"+p.dst.Name+"/alpha") {
			r.Violate(fmt.Sprintf("%s->%s/alpha", p.src.Name, p.dst.Name),
				fmt.Sprintf("%s->%s pixel %v returns alpha %d", p.src.Name, p.dst.Name, c, out.A),
				map[string]interface{}{"src": p.src.Name, "dst": p.dst.Name, "pixel": []uint8{c.R, c.G, c.B, c.A}}, nil)
		}
	}

	var lattice []uint8
	for v := 0; v < 256; v++ {
		lattice = append(lattice, uint8(v))
	}
	if tier == "thorough" {
		r.Rule("all 2^24 RGB at alphas 255, 254, 128, 1 and 0 for each of the 16 ordered pairs (complete), all 256 greys x all 256 alphas, plus all 256 alphas x the 4,096-point lattice {0,17,...,255}^3; each pair also as the first conversions of a fresh process ({255,238,...,0}^3 x alphas {255,128,1,0}, one child process per pair); distinct = (pair, pixel) combinations whose reference value is strictly inside the destination gamut on all channels")
	} else {
		r.Rule("all 2^24 RGB at alpha 255 for each of the 16 ordered pairs (complete), all 256 greys x all 256 alphas, alphas {0,1,2,127,128,254,255} x {0,17,...,255}^3; each pair also as the first conversions of a fresh process ({255,238,...,0}^3 x alphas {255,128,1,0}, one child process per pair); distinct = (pair, pixel) combinations whose reference value is strictly inside the destination gamut on all channels")
	}

	// configuration "first conversions of the process": lazily built or shared
	// tables can depend on which space was used first, so every pair is also the
	// very first thing a fresh process converts (a child per pair, one goroutine)
	if s := os.Getenv("VERIF_C04_FIRST"); s != "" {
		pi, _ := strconv.Atoi(s)
		p := &pairs[pi]
		var evals int64
		for _, a := range []uint8{255, 128, 1, 0} {
			for rr := 255; rr >= 0; rr -= 17 {
				for g := 255; g >= 0; g -= 17 {
					for b := 255; b >= 0; b -= 17 {
						check(p, color.NRGBA{R: uint8(rr), G: uint8(g), B: uint8(b), A: a})
						evals++
					}
				}
			}
		}
		r.Eval(evals)
		r.Finish()
	}
	if os.Getenv("VERIF_SUBRUN") == "" {
		for pi := range pairs {
			subRun(r, "C04", tier, fmt.Sprintf("first-conversion-of-the-process=%s->%s", pairs[pi].src.Name, pairs[pi].dst.Name), fmt.Sprintf("VERIF_C04_FIRST=%d", pi))
		}
	}

	for pi := range pairs {
		p := &pairs[pi]
		r.Par(ev.Workers(), func(shard, n int) {
			var evals, distinct int64
			one := func(c color.NRGBA) {
				check(p, c)
				evals++
				ref := p.T.MulV(refs.V3{p.eotf[c.R], p.eotf[c.G], p.eotf[c.B]})
				if ref[0] > 0 && ref[0] < 1 && ref[1] > 0 && ref[1] < 1 && ref[2] > 0 && ref[2] < 1 {
					distinct++
				}
			}
			for i := shard; i < len(lattice); i += n {
				for _, g := range lattice {
					for _, b := range lattice {
						one(color.NRGBA{R: lattice[i], G: g, B: b, A: 255})
					}
				}
			}
			// alpha sweep
			if tier == "thorough" {
				// the complete RGB cube again at four more alphas
				for _, a := range []uint8{0, 1, 128, 254} {
					for i := shard; i < 256; i += n {
						for g := 0; g < 256; g++ {
							for b := 0; b < 256; b++ {
								one(color.NRGBA{R: uint8(i), G: uint8(g), B: uint8(b), A: a})
							}
						}
					}
				}
			}
			alphas := []int{0, 1, 2, 127, 128, 254, 255}
			if tier == "thorough" {
				alphas = alphas[:0]
				for a := 0; a < 256; a++ {
					alphas = append(alphas, a)
				}
			}
			for ai := shard; ai < len(alphas); ai += n {
				for rr := 0; rr < 256; rr += 17 {
					for g := 0; g < 256; g += 17 {
						for b := 0; b < 256; b += 17 {
							one(color.NRGBA{R: uint8(rr), G: uint8(g), B: uint8(b), A: uint8(alphas[ai])})
						}
					}
				}
			}
			// every grey at every alpha (neutral colours are where shortcuts live)
			for v := shard; v < 256; v += n {
				for a := 0; a < 256; a++ {
					one(color.NRGBA{R: uint8(v), G: uint8(v), B: uint8(v), A: uint8(a)})
				}
			}
			r.Eval(evals)
			r.DistinctN(distinct)
		})
		if pi%5 == 1 {
			c := color.NRGBA{R: 200, G: 30, B: 120, A: 255}
			ref := p.T.MulV(refs.V3{p.eotf[c.R], p.eotf[c.G], p.eotf[c.B]})
			r.Sample(map[string]interface{}{"src": p.src.Name, "dst": p.dst.Name, "pixel": []uint8{c.R, c.G, c.B, c.A}, "out": conv(p, c), "reference_linear": ref, "adapted": p.adapt})
		}
		if r.OutOfTime() {
			r.Cap("time budget")
			break
		}
	}
	_ = math.Abs
	r.Finish()
}
