package props

import (
	"bytes"
	"encoding/binary"
	"encoding/hex"
	"fmt"
	"hash/crc32"
	"sync"
	"sync/atomic"

	"verif/engine/ev"
	"verif/gen"
)

func hexHead(b []byte, n int) string {
	if len(b) > n {
		b = b[:n]
	}
	return hex.EncodeToString(b)
}

// checkBasic compares Load's basic metadata with the description, through the
// format-specific loader and the auto-detecting one.
func checkBasic(r *ev.Run, c *Case, key string) {
	for _, l := range []*loaderFn{loaderFor(c.Info.Format), &loaders[3]} {
		o, _ := load(l, bytes.NewReader(c.Data))
		bad := ""
		switch {
		case o.Panic != "":
			bad = "panicked: " + o.Panic
		case o.Err || o.MdNil:
			bad = "failed to load a well-formed file (" + o.String() + ")"
		case o.Format != c.Info.Format || o.W != c.Info.W || o.H != c.Info.H || o.Bits != c.Info.Bits:
			bad = fmt.Sprintf("reports %s %dx%d %d bits, header says %s %dx%d %d bits", o.Format, o.W, o.H, o.Bits, c.Info.Format, c.Info.W, c.Info.H, c.Info.Bits)
		}
		if bad != "" {
			data := c.Data
			name := c.Name
			r.Violate(key+"/"+l.Name, fmt.Sprintf("%s.Load %s [%s]", l.Name, bad, name),
				map[string]interface{}{"loader": l.Name, "name": name, "len": len(data), "data_hex_first_65536": hexHead(data, 65536)}, nil)
		}
	}
}

// C05: reported dimensions, bit depth and format equal the header's.
func C05(tier string) {
	r := ev.Begin("C05", tier, "exploration")
	r.NotExhaustive()
	r.Assume("well-formed files are built from typed descriptions; each grammar file and each quick field value is cross-validated by image/png, image/jpeg or x/image/webp DecodeConfig: a file the decoder rejects with a format error is dropped and counted as a generator fault, one it rejects as unsupported (e.g. some JPEG sampling factors, huge PNG pixel counts) is kept and compared with the description only")
	r.Rule("PNG: 15 colour-type/bit-depth pairs x interlace x ancillary chunk sequences (depth <= 3 quick / <= 3 thorough over 9 chunk kinds incl. iCCP, PLTE, 9 KiB iTXt) and next-chunk headers at every alignment across the 4096/8192 read boundaries; width/height: walking ones/zeros over 31 bits, byte lanes 0..255 x 3 holds, all values < 2^16 (thorough: all values < 2^24 and 2^17 values around every power of two up to 2^31-1, per field); JPEG: SOF0/SOF2 x 1/3/4 components x sampling factors {1,2}^2 per component, segment sequences (<= 3 before SOF, <= 2 after) over 9 kinds, every APPn, every width and height 1..65535 x 3 holds; WebP: VP8 all 2^14 widths/heights x 3 holds x 16 scale-bit pairs, VP8L the same (thorough: every value of one field x 48 values of the other), VP8X walking bits + byte lanes (thorough: all values < 2^20 and 2^13 around every power of two, per field), all flag bytes; each through the specific loader and autometa; every sequence of up to 4 (thorough 5) Loads over five small files of different formats x {specific, auto} in one process, each result compared with its file\u2019s description; distinct = distinct (format, width, height, bits, structure) descriptions")
	var dropped, unsupported, crossOK atomic.Int64
	var distinct sync.Map
	ndistinct := atomic.Int64{}
	note := func(c *Case) {
		k := fmt.Sprintf("%s/%d/%d/%d/%d", c.Info.Format, c.Info.W, c.Info.H, c.Info.Bits, len(c.Data))
		if _, loaded := distinct.LoadOrStore(k, true); !loaded {
			ndistinct.Add(1)
		}
	}
	withStd := func(c Case, key string) {
		w, h, verdict, err := stdConfig(c.Info.Format, c.Data)
		switch verdict {
		case "rejected":
			dropped.Add(1)
			r.Set("last_dropped", fmt.Sprintf("%s: %v", c.Name, err))
			return
		case "unsupported":
			unsupported.Add(1)
		default:
			crossOK.Add(1)
			if uint32(w) != c.Info.W || uint32(h) != c.Info.H {
				r.Violate("generator/"+key, fmt.Sprintf("generator and standard decoder disagree on %s: %dx%d vs %dx%d", c.Name, c.Info.W, c.Info.H, w, h), nil, nil)
				return
			}
		}
		checkBasic(r, &c, key)
		note(&c)
		r.Eval(2)
	}

	// ---- grammars
	var cases []Case
	depth := 3
	pngGrammar(depth, func(c Case) { cases = append(cases, c) })
	jpegGrammar(3, 2, func(c Case) { cases = append(cases, c) })
	webpGrammar(func(c Case) { cases = append(cases, c) })
	r.Par(ev.Workers(), func(shard, n int) {
		for i := shard; i < len(cases); i += n {
			withStd(cases[i], "grammar/"+cases[i].Info.Format)
		}
	})
	r.Set("grammar_files", len(cases))
	for _, i := range []int{0, len(cases) / 3, len(cases) - 1} {
		r.Sample(map[string]interface{}{"name": cases[i].Name, "len": len(cases[i].Data), "expect": fmt.Sprintf("%+v", cases[i].Info), "data_hex_first_96": hexHead(cases[i].Data, 96)})
	}

	// ---- PNG dimension fields
	basePNG, _ := gen.PNGSpec{W: 1, H: 1, BitDepth: 8, ColorType: 6, IDAT: []byte{0x78, 0x9c, 3, 0, 0, 0, 0, 1}}.Build(nil, -1)
	pngWith := func(buf []byte, w, h uint32, crc bool) Case {
		copy(buf, basePNG)
		binary.BigEndian.PutUint32(buf[16:], w)
		binary.BigEndian.PutUint32(buf[20:], h)
		if crc {
			binary.BigEndian.PutUint32(buf[29:], crc32.ChecksumIEEE(buf[12:29]))
		}
		return Case{fmt.Sprintf("png %dx%d", w, h), buf, gen.Info{Format: "PNG", W: w, H: h, Bits: 8}}
	}
	var vals []uint32
	for b := 0; b < 31; b++ {
		vals = append(vals, 1<<uint(b), 0x7FFFFFFF&^(1<<uint(b)))
	}
	for lane := 0; lane < 4; lane++ {
		for v := 0; v < 256; v++ {
			for _, hold := range []uint32{0, 0x01010101, 0x7F7F7F7F} {
				x := hold&^(0xFF<<uint(8*lane)) | uint32(v)<<uint(8*lane)
				x &= 0x7FFFFFFF
				if x != 0 {
					vals = append(vals, x)
				}
			}
		}
	}
	for v := uint32(1); v < 1<<16; v++ {
		vals = append(vals, v)
	}
	holds := []uint32{1, 0x0102, 0x7FFFFFFF}
	r.Par(ev.Workers(), func(shard, n int) {
		buf := make([]byte, len(basePNG))
		for i := shard; i < len(vals); i += n {
			for _, hd := range holds {
				withStd(pngWith(buf, vals[i], hd, true), "field/png-width")
				withStd(pngWith(buf, hd, vals[i], true), "field/png-height")
			}
		}
	})
	if tier == "thorough" {
		// every value below 2^24 of each field, and 2^17 values around every power
		// of two above that up to 2^31-1, other field held at 1 (no std cross-check:
		// same header shape). The complete 2^31 sweep (10^10 loads) does not finish
		// in a tier that has to run in minutes.
		type span struct{ lo, hi int64 }
		spans := []span{{1, 1 << 24}}
		for k := 24; k <= 31; k++ {
			lo, hi := int64(1)<<uint(k)-65536, int64(1)<<uint(k)+65536
			if hi > 1<<31 {
				hi = 1 << 31
			}
			spans = append(spans, span{lo, hi})
		}
		const chunk = 1 << 18
		type piece struct{ lo, hi int64 }
		var pieces []piece
		for _, sp := range spans {
			for lo := sp.lo; lo < sp.hi; lo += chunk {
				hi := lo + chunk
				if hi > sp.hi {
					hi = sp.hi
				}
				pieces = append(pieces, piece{lo, hi})
			}
		}
		var next atomic.Int64
		r.Par(ev.Workers(), func(shard, n int) {
			buf := make([]byte, len(basePNG))
			for {
				c := int(next.Add(1) - 1)
				if c >= len(pieces) || r.NViolations() > 10 {
					return
				}
				if r.OutOfTime() {
					r.Cap("time budget in the PNG field sweep")
					return
				}
				for v := pieces[c].lo; v < pieces[c].hi; v++ {
					cs := pngWith(buf, uint32(v), 1, false)
					checkBasic(r, &cs, "field/png-width-all")
					cs = pngWith(buf, 1, uint32(v), false)
					checkBasic(r, &cs, "field/png-height-all")
				}
				r.Eval(4 * (pieces[c].hi - pieces[c].lo))
			}
		})
	}

	// ---- JPEG dimension fields
	for _, sof := range []byte{0xC0, 0xC2} {
		sof := sof
		r.Par(ev.Workers(), func(shard, n int) {
			for v := 1 + shard; v < 65536; v += n {
				for _, hd := range []uint16{1, 0x0102, 65535} {
					for k := 0; k < 2; k++ {
						w, h := uint16(v), hd
						if k == 1 {
							w, h = hd, uint16(v)
						}
						spec := gen.JPEGSpec{SOFMarker: sof, Precision: 8, W: w, H: h, Comps: jpegComps(3, []byte{2, 2, 1, 1, 1, 1}),
							Before: []gen.JPEGSeg{jpegSegByName("APP0")}, Scan: []byte{0}}
						data, evs := spec.Build()
						c := Case{fmt.Sprintf("jpeg SOF%x %dx%d", sof&0xF, w, h), data, gen.JPEGModel(spec, evs)}
						if v%257 == 0 || v < 300 || v > 65500 {
							withStd(c, "field/jpeg")
						} else {
							checkBasic(r, &c, "field/jpeg")
							ndistinct.Add(1)
							r.Eval(2)
						}
					}
				}
			}
		})
	}

	// ---- WebP fields
	r.Par(ev.Workers(), func(shard, n int) {
		for v := 1 + shard; v < 1<<14; v += n {
			for _, hd := range []uint16{1, 0x1234, 16383} {
				for k := 0; k < 2; k++ {
					w, h := uint16(v), hd
					if k == 1 {
						w, h = hd, uint16(v)
					}
					for sc := byte(0); sc < 16; sc++ {
						data, info := gen.WebPVP8(w, h, sc&3, sc>>2, []byte{0, 0, 0, 0, 0, 0}, 0)
						c := Case{fmt.Sprintf("webp VP8 %dx%d scale %d/%d", w, h, sc&3, sc>>2), data, info}
						if sc == 0 && v%61 == 0 {
							withStd(c, "field/webp-vp8")
						} else {
							checkBasic(r, &c, "field/webp-vp8")
							r.Eval(2)
						}
					}
					data, info := gen.WebPVP8L(w-1, h-1, v%2 == 0, []byte{0, 0, 0}, 0)
					c := Case{fmt.Sprintf("webp VP8L %dx%d", w, h), data, info}
					if v%61 == 0 {
						withStd(c, "field/webp-vp8l")
					} else {
						checkBasic(r, &c, "field/webp-vp8l")
						ndistinct.Add(1)
						r.Eval(2)
					}
				}
			}
		}
	})
	vp8, _ := gen.WebPVP8(33, 21, 0, 0, []byte{0, 0, 0, 0, 0, 0}, 0)
	inner := vp8[12:]
	var xvals []uint32
	for b := 0; b < 24; b++ {
		xvals = append(xvals, 1<<uint(b), 0xFFFFFF&^(1<<uint(b)))
	}
	for lane := 0; lane < 3; lane++ {
		for v := 0; v < 256; v++ {
			for _, hold := range []uint32{0, 0x010101, 0xFFFFFF} {
				xvals = append(xvals, hold&^(0xFF<<uint(8*lane))|uint32(v)<<uint(8*lane))
			}
		}
	}
	if tier == "thorough" {
		// every value below 2^20 and 2^13 values around every power of two above
		xvals = xvals[:0]
		for v := uint32(0); v < 1<<20; v++ {
			xvals = append(xvals, v)
		}
		for k := uint(20); k <= 24; k++ {
			for d := -4096; d < 4096; d++ {
				if v := int64(1)<<k + int64(d); v >= 1<<20 && v < 1<<24 {
					xvals = append(xvals, uint32(v))
				}
			}
		}
	}
	r.Par(ev.Workers(), func(shard, n int) {
		for i := shard; i < len(xvals); i += n {
			for k := 0; k < 2; k++ {
				w1, h1 := xvals[i], uint32(0x000102)
				if k == 1 {
					w1, h1 = h1, xvals[i]
				}
				data, info := gen.WebPVP8X(0, w1, h1, nil, inner)
				c := Case{fmt.Sprintf("webp VP8X %dx%d", w1+1, h1+1), data, info}
				if i%97 == 0 {
					withStd(c, "field/webp-vp8x")
				} else {
					checkBasic(r, &c, "field/webp-vp8x")
					r.Eval(2)
				}
			}
		}
		if tier == "thorough" {
			// VP8L: every width x 48 heights and every height x 48 widths (the two
			// 14-bit fields are independent bit ranges of one 32-bit word; all 2^28
			// pairs would be 5 x 10^8 loads)
			var side []int
			for k := uint(0); k <= 14; k++ {
				for _, d := range []int{-1, 0, 1} {
					if v := 1<<k + d; v >= 0 && v < 1<<14 {
						side = append(side, v)
					}
				}
			}
			side = append(side, 0x1234&0x3FFF, 0x2AAA, 0x1555, 12345, 9999)
			for w1 := shard; w1 < 1<<14; w1 += n {
				for _, h1 := range side {
					for k := 0; k < 2; k++ {
						a, b := w1, h1
						if k == 1 {
							a, b = h1, w1
						}
						data, info := gen.WebPVP8L(uint16(a), uint16(b), false, nil, 0)
						c := Case{"webp VP8L width x height sweep", data, info}
						checkBasic(r, &c, "field/webp-vp8l-all")
					}
				}
				r.Eval(int64(4 * len(side)))
				if r.OutOfTime() {
					r.Cap("time budget in the VP8L sweep")
					return
				}
			}
		}
	})

	// operation sequences: what a Load reports must not depend on earlier Loads
	sd := 4
	if tier == "thorough" {
		sd = 5
	}
	loaderSequences(r, sd, "sequence", true, false)
	r.Set("std_cross_validated", crossOK.Load())
	r.Set("std_unsupported_kept", unsupported.Load())
	r.Set("generator_files_dropped", dropped.Load())
	r.DistinctN(ndistinct.Load())
	if dropped.Load() > 0 {
		r.Assume(fmt.Sprintf("%d generated files were rejected by the standard decoder and dropped", dropped.Load()))
	}
	if tier == "thorough" {
		// configuration: 32-bit platform (the quick tier of this check, built for GOARCH=386)
		subRunArch(r, "C05", "386")
	}
	r.Finish()
}
