package props

import (
	"bytes"
	"fmt"
	"sync"

	"verif/engine/ev"
	"verif/gen"
)

// checkICC compares Load's ICC outcome (and basic metadata) with the description.
func checkICC(r *ev.Run, c *Case, key string, viaAuto bool) {
	ls := []*loaderFn{loaderFor(c.Info.Format)}
	if viaAuto {
		ls = append(ls, &loaders[3])
	}
	for _, l := range ls {
		o, _ := load(l, bytes.NewReader(c.Data))
		bad := ""
		in := &c.Info
		switch {
		case o.Panic != "":
			bad = "panicked: " + o.Panic
		case in.NoSOF:
			if !o.Err || !o.MdNil {
				bad = "no frame header before the scan, yet Load returned " + o.String()
			}
		case o.Err || o.MdNil:
			bad = "basic metadata not returned (" + o.String() + ")"
		case o.Format != in.Format || o.W != in.W || o.H != in.H || o.Bits != in.Bits:
			bad = fmt.Sprintf("basic metadata %s %dx%d/%d, expected %s %dx%d/%d", o.Format, o.W, o.H, o.Bits, in.Format, in.W, in.H, in.Bits)
		case in.ICCLoose:
			// duplicate chunk numbers: not pinned by the property
		case in.ICCDamaged:
			if !o.ICCErr || !o.ICCNil {
				bad = "damaged profile: the accessor must return an error and no bytes, got " + o.String()
			}
		case in.HasICC:
			if o.ICCErr && in.ICCAltError {
				break
			}
			if o.ICCErr || o.ICCNil || !bytes.Equal(o.ICC, in.ICC) {
				bad = fmt.Sprintf("embedded profile of %d bytes (#%08x) not returned byte-for-byte: got %s", len(in.ICC), fnv(in.ICC), o.String())
			}
		default:
			if !o.ICCNil || o.ICCErr {
				bad = "no embedded profile: expected (nil, nil), got " + o.String()
			}
		}
		if bad != "" {
			name, data := c.name(), c.Data
			r.Violate(key+"/"+l.Name, fmt.Sprintf("%s.Load: %s [%s]", l.Name, bad, name),
				map[string]interface{}{"loader": l.Name, "name": name, "len": len(data), "data_hex_first_65536": hexHead(data, 65536)}, nil)
		}
	}
}

// exactOrError is the oracle for damage classes whose detection is not
// guaranteed to change the bytes: the accessor returns the exact original
// profile or an error, never other bytes; basic metadata present.
func exactOrError(r *ev.Run, c *Case, orig []byte, key string) {
	l := loaderFor(c.Info.Format)
	o, _ := load(l, bytes.NewReader(c.Data))
	bad := ""
	switch {
	case o.Panic != "":
		bad = "panicked: " + o.Panic
	case o.Err || o.MdNil:
		bad = "basic metadata not returned (" + o.String() + ")"
	case o.W != c.Info.W || o.H != c.Info.H || o.Bits != c.Info.Bits:
		bad = "wrong basic metadata " + o.String()
	case o.ICCErr && o.ICCNil:
	case !o.ICCErr && bytes.Equal(o.ICC, orig) && !o.ICCNil:
	default:
		bad = fmt.Sprintf("damaged profile: accessor returned neither the original %d bytes nor an error: %s", len(orig), o.String())
	}
	if bad != "" {
		name, data := c.name(), c.Data
		r.Violate(key+"/"+l.Name, fmt.Sprintf("%s.Load: %s [%s]", l.Name, bad, name),
			map[string]interface{}{"loader": l.Name, "name": name, "len": len(data), "data_hex_first_65536": hexHead(data, 65536)}, nil)
	}
}

// ---- JPEG reassembly state machine

const (
	symSOF = iota
	symShortICC
	symAPP2x
	symAPP1
	symCOM
	symICCBase // symICCBase + 4*num + total, num,total in 0..3
	symCount   = symICCBase + 16
)

func symName(s int) string {
	switch s {
	case symSOF:
		return "SOF"
	case symShortICC:
		return "APP2(ICC tag, 13 bytes)"
	case symAPP2x:
		return "APP2(other)"
	case symAPP1:
		return "APP1"
	case symCOM:
		return "COM"
	}
	return fmt.Sprintf("ICC(%d/%d)", (s-symICCBase)/4, (s-symICCBase)%4)
}

var symNames = func() []string {
	var o []string
	for s := 0; s < symCount; s++ {
		o = append(o, symName(s))
	}
	return o
}()

func jpegFromSymbols(syms []int, buf []byte) ([]byte, []gen.JPEGEvent, gen.JPEGSpec) {
	spec := gen.JPEGSpec{SOFMarker: 0xC0, Precision: 8, W: 321, H: 123, Comps: jpegComps(3, []byte{2, 2, 1, 1, 1, 1})}
	out := append(buf[:0], 0xFF, 0xD8)
	var evs []gen.JPEGEvent
	seg := func(m byte, d []byte) {
		out = append(out, 0xFF, m, byte((len(d)+2)>>8), byte(len(d)+2))
		out = append(out, d...)
	}
	for pos, s := range syms {
		switch s {
		case symSOF:
			seg(0xC0, []byte{8, 0, 123, 1, 65, 3, 1, 0x22, 0, 2, 0x11, 1, 3, 0x11, 1})
			evs = append(evs, gen.JPEGEvent{SOF: true, End: len(out)})
		case symShortICC:
			d := []byte("ICC_PROFILE\x00\x01")
			seg(0xE2, d)
			evs = append(evs, gen.JPEGEvent{Seg: gen.JPEGSeg{Marker: 0xE2, Data: d}, End: len(out)})
		case symAPP2x:
			d := []byte("MPF\x00 not an icc profile")
			seg(0xE2, d)
			evs = append(evs, gen.JPEGEvent{Seg: gen.JPEGSeg{Marker: 0xE2, Data: d}, End: len(out)})
		case symAPP1:
			d := []byte("Exif\x00\x00")
			seg(0xE1, d)
			evs = append(evs, gen.JPEGEvent{Seg: gen.JPEGSeg{Marker: 0xE1, Data: d}, End: len(out)})
		case symCOM:
			d := []byte("c")
			seg(0xFE, d)
			evs = append(evs, gen.JPEGEvent{Seg: gen.JPEGSeg{Marker: 0xFE, Data: d}, End: len(out)})
		default:
			num, tot := byte((s-symICCBase)/4), byte((s-symICCBase)%4)
			g := gen.ICCSeg(num, tot, []byte{byte(s), byte(pos), 0xAA, 0x55 + byte(pos)})
			seg(g.Marker, g.Data)
			evs = append(evs, gen.JPEGEvent{Seg: g, End: len(out)})
		}
	}
	seg(0xDA, []byte{3, 1, 0, 2, 0x11, 3, 0x11, 0, 63, 0})
	evs = append(evs, gen.JPEGEvent{SOS: true, End: len(out)})
	out = append(out, 0x00, 0x12, 0xFF, 0xD9)
	return out, evs, spec
}

// C06: an embedded ICC profile is returned byte-for-byte, or absent, or an error.
func C06(tier string) {
	r := ev.Begin("C06", tier, "model_checking")
	r.NotExhaustive()
	maxLen := 5
	if tier == "thorough" {
		maxLen = 6
	}
	r.Rule(fmt.Sprintf("JPEG ICC reassembly as a state machine: every segment sequence of length <= %d over the 21-symbol alphabet {SOF, ICC(num,total) for num,total in 0..3 with a payload unique per occurrence, APP2 with the ICC tag but 13 bytes, APP2 other, APP1, COM} with at most one SOF, terminated by SOS; the real jpegmeta.Load is run on every sequence and compared with the reference model (states = distinct reference-model states reached, transitions = segments consumed); sizes: JPEG profiles 1..200 bytes, chunks of 65518/65519 bytes, 2/3/5 chunks in every order with foreign segments interleaved, 255 chunks forward/reverse/rotated, 1 and 4 MiB; PNG names 1..79 (80 must not yield other bytes), profile sizes x {zeros, ramp, incompressible} x deflate levels {0,1,6,9}; WebP VP8X+ICCP sizes incl. odd (padding); damage: every single-byte substitution and truncation of the compressed stream of three PNG profiles, WebP ICC flag without / with wrong / truncated chunk", maxLen))
	r.Assume("duplicate chunk numbers are outside the property's damage list: outcome not pinned; when a complete consistent set and the frame header have been seen, later ICC segments may or may not be scanned: exact bytes or an error are both accepted there")

	// ---------------- state machine
	total := 0
	for l := 0; l <= maxLen; l++ {
		total += ipow(symCount, l)
	}
	states := sync.Map{}
	var nstates, ntrans, ntraces int64
	var mu sync.Mutex
	outcomes := map[string]int{}
	r.Par(ev.Workers(), func(shard, n int) {
		buf := make([]byte, 0, 512)
		syms := make([]int, 0, maxLen)
		var tr, ex int64
		local := map[uint64]bool{}
		localOut := map[string]int{}
		// enumerate by (length, index)
		idx := 0
		for l := 0; l <= maxLen; l++ {
			cnt := ipow(symCount, l)
			for i := 0; i < cnt; i++ {
				idx++
				if idx%n != shard {
					continue
				}
				syms = syms[:0]
				q, nsof := i, 0
				for k := 0; k < l; k++ {
					s := q % symCount
					q /= symCount
					if s == symSOF {
						nsof++
					}
					syms = append(syms, s)
				}
				if nsof > 1 {
					continue
				}
				data, evs, spec := jpegFromSymbols(syms, buf)
				info := gen.JPEGModel(spec, evs)
				for _, st := range info.States {
					local[st] = true
				}
				tr += int64(len(info.States))
				ex++
				nm := make([]byte, 0, 64)
				nm = append(nm, "JPEG segments: SOI"...)
				for _, s := range syms {
					nm = append(nm, ' ')
					nm = append(nm, symNames[s]...)
				}
				nm = append(nm, " SOS"...)
				c := Case{Name: string(nm), Data: data, Info: info}
				checkICC(r, &c, "jpeg-sequence", false)
				switch {
				case info.NoSOF:
					localOut["no frame header: error"]++
				case info.ICCLoose:
					localOut["duplicate chunk: not pinned"]++
				case info.ICCDamaged:
					localOut["damaged: error required"]++
				case info.HasICC && info.ICCAltError:
					localOut["profile (or error: later ICC segments)"]++
				case info.HasICC:
					localOut["profile returned"]++
				default:
					localOut["no profile: (nil, nil)"]++
				}
			}
			if r.NViolations() > 20 {
				break
			}
		}
		mu.Lock()
		ntrans += tr
		ntraces += ex
		for k, v := range localOut {
			outcomes[k] += v
		}
		mu.Unlock()
		for st := range local {
			if _, loaded := states.LoadOrStore(st, true); !loaded {
				mu.Lock()
				nstates++
				mu.Unlock()
			}
		}
	})
	r.States(nstates)
	r.Trans(ntrans)
	r.Traces(ntraces)
	r.Eval(ntraces)
	r.Set("jpeg_sequences_executed", ntraces)
	r.Set("jpeg_expected_outcome_classes", outcomes)
	r.Set("jpeg_sequence_space", total)
	{
		data, evs, spec := jpegFromSymbols([]int{symICCBase + 4*1 + 1, symICCBase + 4*2 + 2, symSOF}, nil)
		info := gen.JPEGModel(spec, evs)
		var sts []string
		for _, s := range info.States {
			sts = append(sts, gen.JPEGStateString(s))
		}
		r.Sample(map[string]interface{}{"sequence": "ICC(1/1) ICC(2/2) SOF SOS", "data_hex": hexHead(data, 200), "model_states": sts, "expected": "damaged: error required"})
	}

	// ---------------- sizes and orders
	var cases []Case
	add := func(c Case) { cases = append(cases, c) }
	jpegWith := func(name string, before, after []gen.JPEGSeg) {
		spec := gen.JPEGSpec{SOFMarker: 0xC2, Precision: 8, W: 640, H: 480, Comps: jpegComps(3, []byte{2, 1, 1, 1, 1, 1}), Before: before, After: after, Scan: []byte{1, 2, 3}}
		data, evs := spec.Build()
		add(Case{name, data, gen.JPEGModel(spec, evs)})
	}
	split := func(p []byte, sizes []int) []gen.JPEGSeg {
		var segs []gen.JPEGSeg
		off := 0
		for i, sz := range sizes {
			segs = append(segs, gen.ICCSeg(byte(i+1), byte(len(sizes)), p[off:off+sz]))
			off += sz
		}
		return segs
	}
	for n := 1; n <= 200; n++ {
		jpegWith(fmt.Sprintf("jpeg 1 chunk of %d bytes", n), []gen.JPEGSeg{jpegSegByName("APP0"), gen.ICCSeg(1, 1, testProfile(n, "lcg"))}, nil)
	}
	for _, n := range []int{65518, 65519} {
		jpegWith(fmt.Sprintf("jpeg 1 chunk of %d bytes", n), []gen.JPEGSeg{gen.ICCSeg(1, 1, testProfile(n, "lcg"))}, nil)
		p := testProfile(2*n, "lcg")
		jpegWith(fmt.Sprintf("jpeg 2 chunks of %d bytes", n), split(p, []int{n, n}), nil)
		jpegWith(fmt.Sprintf("jpeg 2 chunks of %d bytes after SOF reversed", n), nil, []gen.JPEGSeg{split(p, []int{n, n})[1], split(p, []int{n, n})[0]})
	}
	for _, sizes := range [][]int{{100, 400}, {100, 400, 300}, {300, 50, 300, 350}, {7, 1, 9, 2, 5}, {65519, 65519, 3}, {1, 65519, 1}} {
		tot := 0
		for _, s := range sizes {
			tot += s
		}
		p := testProfile(tot, "lcg")
		segs := split(p, sizes)
		k := len(sizes)
		if k > 5 {
			continue
		}
		for _, ord := range perms(k) {
			var o []gen.JPEGSeg
			for _, i := range ord {
				o = append(o, segs[i])
			}
			jpegWith(fmt.Sprintf("jpeg chunks %v in order %v before SOF", sizes, ord), o, nil)
			if k <= 3 || tier == "thorough" {
				jpegWith(fmt.Sprintf("jpeg chunks %v in order %v after SOF", sizes, ord), []gen.JPEGSeg{jpegSegByName("APP0")}, o)
				// interleaved with two foreign segments at every pair of positions
				for a := 0; a <= k; a++ {
					for b := a; b <= k; b++ {
						var mix []gen.JPEGSeg
						for i := 0; i <= k; i++ {
							if i == a {
								mix = append(mix, jpegSegByName("COM"))
							}
							if i == b {
								mix = append(mix, jpegSegByName("APP2x"))
							}
							if i < k {
								mix = append(mix, o[i])
							}
						}
						half := len(mix) / 2
						jpegWith(fmt.Sprintf("jpeg chunks %v order %v, COM at %d, APP2x at %d, SOF in the middle", sizes, ord, a, b), mix[:half], mix[half:])
					}
				}
			}
		}
	}
	{
		sizes := make([]int, 255)
		for i := range sizes {
			sizes[i] = 3 + i%5
		}
		tot := 0
		for _, s := range sizes {
			tot += s
		}
		p := testProfile(tot, "lcg")
		segs := split(p, sizes)
		rev := make([]gen.JPEGSeg, 255)
		rot := make([]gen.JPEGSeg, 255)
		for i := range segs {
			rev[254-i] = segs[i]
			rot[(i+100)%255] = segs[i]
		}
		jpegWith("jpeg 255 chunks forward", segs, nil)
		jpegWith("jpeg 255 chunks reversed", rev, nil)
		jpegWith("jpeg 255 chunks rotated, half after SOF", rot[:128], rot[128:])
	}
	// a geometric ladder of sizes that are not round numbers, in all three containers
	for n := 317; n < 9<<20; n = n*137/100 + 3 {
		p := testProfile(n, "lcg")
		var sizes []int
		for rem := n; rem > 0; {
			s := minI(rem, 65519)
			sizes = append(sizes, s)
			rem -= s
		}
		if len(sizes) <= 255 {
			jpegWith(fmt.Sprintf("jpeg ladder %d bytes in %d chunks", n, len(sizes)), split(p, sizes), nil)
		}
	}
	big := []int{1 << 20, 4 << 20}
	if tier == "thorough" {
		big = append(big, 16<<20-300)
	}
	for _, n := range big {
		p := testProfile(n, "lcg")
		var sizes []int
		for rem := n; rem > 0; {
			s := 65519
			if s > rem {
				s = rem
			}
			sizes = append(sizes, s)
			rem -= s
		}
		if len(sizes) <= 255 {
			jpegWith(fmt.Sprintf("jpeg %d bytes in %d chunks", n, len(sizes)), split(p, sizes), nil)
		}
	}

	// payloads that are (or look like) real ICC profiles, with a correct and with a
	// wrong size field: the bytes are opaque to the loaders
	for _, kind := range []string{"icc", "icc-size-short", "icc-size-long", "icc-size-128"} {
		for _, sizes := range [][]int{{1000}, {700, 300}, {1000, 2001}, {132}, {200, 65519, 3}} {
			tot := 0
			for _, s := range sizes {
				tot += s
			}
			p := testProfile(tot, kind)
			segs := split(p, sizes)
			jpegWith(fmt.Sprintf("jpeg %s payload %v", kind, sizes), segs, nil)
			if len(segs) > 1 {
				rev := make([]gen.JPEGSeg, len(segs))
				for i := range segs {
					rev[len(segs)-1-i] = segs[i]
				}
				jpegWith(fmt.Sprintf("jpeg %s payload %v reversed, after SOF", kind, sizes), []gen.JPEGSeg{jpegSegByName("APP0")}, rev)
			}
		}
	}
	// the largest profile a JPEG can carry: 255 full chunks
	{
		n := 255 * 65519
		p := testProfile(n, "ramp")
		sizes := make([]int, 255)
		for i := range sizes {
			sizes[i] = 65519
		}
		jpegWith("jpeg 255 full chunks (16,707,345 bytes)", split(p, sizes), nil)
	}

	// PNG
	pngWith := func(name string, prof []byte, iname string, level int, pre, post []string) {
		spec := gen.PNGSpec{W: 800, H: 600, BitDepth: 8, ColorType: 2, IDAT: []byte{0x78, 0x9c, 3, 0, 0, 0, 0, 1}}
		for _, s := range pre {
			spec.Pre = append(spec.Pre, pngAncillary(s))
		}
		at := len(spec.Pre)
		spec.Pre = append(spec.Pre, gen.PNGChunk{Type: "iCCP", Data: gen.ICCPChunk(iname, prof, level)})
		for _, s := range post {
			spec.Pre = append(spec.Pre, pngAncillary(s))
		}
		data, info := spec.Build(prof, at)
		add(Case{name, data, info})
	}
	for n := 1; n <= 79; n++ {
		nm := bytes.Repeat([]byte{'n'}, n)
		nm[n-1] = 'Z'
		if n > 2 {
			nm[1] = 0xE9 // Latin-1 e-acute: legal in profile names
		}
		pngWith(fmt.Sprintf("png iCCP name of %d bytes", n), testProfile(257, "lcg"), string(nm), 6, []string{"gAMA"}, []string{"pHYs"})
	}
	var psizes []int
	if tier == "thorough" {
		for n := 1; n <= 9000; n++ {
			psizes = append(psizes, n)
		}
	} else {
		for n := 1; n <= 300; n++ {
			psizes = append(psizes, n)
		}
		for n := 3900; n <= 4300; n += 3 {
			psizes = append(psizes, n)
		}
		for n := 8000; n <= 8400; n += 7 {
			psizes = append(psizes, n)
		}
	}
	psizes = append(psizes, 65535, 65536, 65537, 1<<20, 4<<20)
	for n := 317; n < 9<<20; n = n*137/100 + 3 {
		psizes = append(psizes, n)
	}
	for i, n := range psizes {
		for ci, content := range []string{"zeros", "ramp", "lcg"} {
			for li, level := range []int{0, 1, 6, 9} {
				if n > 9000 && (li+ci)%2 == 1 {
					continue
				}
				if tier != "thorough" && n > 300 && (i+ci+li)%3 != 0 {
					continue
				}
				pre, post := []string{}, []string{}
				if (i+li)%2 == 0 {
					pre = []string{"tEXt"}
				} else {
					post = []string{"tIME"}
				}
				pngWith(fmt.Sprintf("png iCCP %d bytes %s level %d", n, content, level), testProfile(n, content), "profile", level, pre, post)
			}
		}
	}

	for _, kind := range []string{"icc", "icc-size-short", "icc-size-long", "icc-size-128"} {
		for _, n := range []int{132, 1000, 3001} {
			pngWith(fmt.Sprintf("png iCCP %d bytes %s", n, kind), testProfile(n, kind), "real", 6, nil, []string{"gAMA"})
		}
	}
	// beyond the largest JPEG profile (compressible content keeps the file small)
	for _, n := range []int{255*65519 - 1, 255 * 65519, 255*65519 + 1, 20000003, 33554433} {
		pngWith(fmt.Sprintf("png iCCP %d bytes ramp level 6", n), testProfile(n, "ramp"), "huge", 6, nil, nil)
	}

	// WebP
	vp8, _ := gen.WebPVP8(33, 21, 0, 0, []byte{0, 0, 0, 0, 0, 0}, 0)
	inner := vp8[12:]
	var wsizes []int
	for n := 1; n <= 300; n++ {
		wsizes = append(wsizes, n)
	}
	wsizes = append(wsizes, 4085, 4086, 4087, 4096, 4097, 8191, 8192, 65535, 65536, 65537, 1<<20, 1<<20+1, 4<<20)
	for n := 317; n < 9<<20; n = n*137/100 + 3 {
		wsizes = append(wsizes, n)
	}
	for _, kind := range []string{"icc", "icc-size-short", "icc-size-long"} {
		for _, n := range []int{132, 1001, 3000} {
			data, info := gen.WebPVP8X(0x20, 32, 20, testProfile(n, kind), inner)
			add(Case{fmt.Sprintf("webp VP8X+ICCP %d bytes %s", n, kind), data, info})
		}
	}
	wsizes = append(wsizes, 255*65519+1, 20000003)
	for _, n := range wsizes {
		data, info := gen.WebPVP8X(0x20, 32, 20, testProfile(n, "lcg"), inner)
		add(Case{fmt.Sprintf("webp VP8X+ICCP %d bytes", n), data, info})
		data, info = gen.WebPVP8X(0x3C, 32, 20, testProfile(n, "ramp"), append(gen.RiffChunk("ALPH", []byte{0, 1, 2}), inner...))
		add(Case{fmt.Sprintf("webp VP8X(flags 0x3C)+ICCP %d bytes +ALPH", n), data, info})
	}

	r.Par(ev.Workers(), func(shard, n int) {
		for i := shard; i < len(cases); i += n {
			checkICC(r, &cases[i], "sizes/"+cases[i].Info.Format, true)
			r.Eval(2)
			r.Traces(2)
			if cases[i].Info.HasICC {
				r.Distinct(fmt.Sprintf("%s/%d/%08x", cases[i].Info.Format, len(cases[i].Info.ICC), fnv(cases[i].Data[:minI(len(cases[i].Data), 4096)])))
			}
		}
	})
	sd := 4
	if tier == "thorough" {
		sd = 5
	}
	loaderSequences(r, sd, "sequence", true, false)
	r.Set("size_and_order_files", len(cases))
	r.Sample(map[string]interface{}{"name": cases[len(cases)/2].Name, "len": len(cases[len(cases)/2].Data)})

	// ---------------- damage
	// PNG name of 80 bytes (no terminator within the limit): never other bytes
	{
		prof := testProfile(100, "lcg")
		spec := gen.PNGSpec{W: 80, H: 60, BitDepth: 8, ColorType: 2, IDAT: []byte{0x78, 0x9c, 3, 0, 0, 0, 0, 1}}
		spec.Pre = []gen.PNGChunk{{Type: "iCCP", Data: gen.ICCPChunk(string(bytes.Repeat([]byte{'x'}, 80)), prof, 6)}}
		data, _ := spec.Build(nil, -1)
		o, _ := load(&loaders[0], bytes.NewReader(data))
		r.Eval(1)
		if o.Panic != "" || (!o.MdNil && !o.ICCNil && !bytes.Equal(o.ICC, prof)) {
			r.Violate("damage/png-name-80", "PNG iCCP with an 80-byte name returned other bytes or panicked: "+o.String(), nil, nil)
		}
	}
	var dmg []func()
	for _, n := range []int{20, 64, 131} {
		for _, level := range []int{0, 6} {
			prof := testProfile(n, "ramp")
			full := gen.ICCPChunk("p", prof, level)
			zoff := 3 // name 'p' + NUL + method
			mk := func(chunk []byte, what string) Case {
				spec := gen.PNGSpec{W: 31, H: 17, BitDepth: 16, ColorType: 6, IDAT: []byte{0x78, 0x9c, 3, 0, 0, 0, 0, 1}}
				spec.Pre = []gen.PNGChunk{pngAncillary("gAMA"), {Type: "iCCP", Data: chunk}, pngAncillary("tIME")}
				data, info := spec.Build(nil, -1)
				return Case{what, data, info}
			}
			for pos := zoff; pos < len(full); pos++ {
				pos := pos
				dmg = append(dmg, func() {
					for v := 0; v < 256; v++ {
						if byte(v) == full[pos] {
							continue
						}
						ch := append([]byte(nil), full...)
						ch[pos] = byte(v)
						c := mk(ch, fmt.Sprintf("png iCCP (%d bytes, level %d) compressed byte %d set to %#02x", n, level, pos-zoff, v))
						exactOrError(r, &c, prof, "damage/png-substitution")
					}
					r.Eval(255)
					r.Traces(255)
				})
			}
			for cut := zoff + 1; cut < len(full); cut++ {
				cut := cut
				dmg = append(dmg, func() {
					c := mk(append([]byte(nil), full[:cut]...), fmt.Sprintf("png iCCP (%d bytes, level %d) compressed stream cut to %d bytes", n, level, cut-zoff))
					exactOrError(r, &c, prof, "damage/png-truncation")
					r.Eval(1)
					r.Traces(1)
				})
			}
		}
	}
	r.Par(ev.Workers(), func(shard, n int) {
		for i := shard; i < len(dmg); i += n {
			dmg[i]()
		}
	})
	// WebP: ICC flag set but no / wrong / truncated chunk
	{
		noICC, info := gen.WebPVP8X(0x20, 32, 20, nil, inner)
		info.ICCDamaged = true
		c := Case{"webp ICC flag set, next chunk is VP8", noICC, info}
		checkICC(r, &c, "damage/webp", true)
		bare, info2 := gen.WebPVP8X(0x20, 32, 20, nil, nil)
		info2.ICCDamaged = true
		c = Case{"webp ICC flag set, file ends after VP8X", bare, info2}
		checkICC(r, &c, "damage/webp", true)
		fullw, info3 := gen.WebPVP8X(0x20, 32, 20, testProfile(500, "lcg"), nil)
		for cut := 30; cut < len(fullw); cut += 7 {
			i3 := info3
			i3.HasICC, i3.ICC, i3.ICCDamaged = false, nil, true
			c = Case{fmt.Sprintf("webp ICCP truncated at %d", cut), fullw[:cut], i3}
			checkICC(r, &c, "damage/webp", true)
			r.Eval(2)
			r.Traces(2)
		}
	}
	if tier == "thorough" {
		// configuration: 32-bit platform (the quick tier of this check, built for GOARCH=386)
		subRunArch(r, "C06", "386")
	}
	r.Finish()
}

func minI(a, b int) int {
	if a < b {
		return a
	}
	return b
}
