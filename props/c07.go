package props

import (
	"bufio"
	"bytes"
	"fmt"
	"io"
	"os"
	"path/filepath"
	"strings"
	"sync/atomic"

	"sync"
	"time"
	"verif/engine/envx"
	"verif/engine/ev"
	"verif/gen"
)

// failSrc delivers data[:failAt] in chunks and then ends in one of four ways.
type failSrc struct {
	data      []byte
	pos       int
	failAt    int
	kind      int // 0 EOF, 1 EOF together with the last data, 2 error, 3 error together with the last data
	chunk     int // max bytes per call, 0 = unlimited
	delivered int
	done      bool
}

var kindNames = []string{"EOF", "data+EOF", "I/O error", "data+I/O error"}

func (s *failSrc) term() error {
	if s.kind >= 2 {
		return envx.ErrInjected
	}
	return io.EOF
}

func (s *failSrc) Read(p []byte) (int, error) {
	if s.done {
		return 0, s.term()
	}
	if len(p) == 0 {
		return 0, nil
	}
	n := s.failAt - s.pos
	if n > len(p) {
		n = len(p)
	}
	if s.chunk > 0 && n > s.chunk {
		n = s.chunk
	}
	if n == 0 {
		s.done = true
		return 0, s.term()
	}
	copy(p, s.data[s.pos:s.pos+n])
	s.pos += n
	s.delivered += n
	if s.pos == s.failAt && (s.kind == 1 || s.kind == 3) {
		s.done = true
		return n, s.term()
	}
	return n, nil
}

// drain reads the stream to its end in one of three styles.
func drain(st io.Reader, mode int) (got []byte, err error) {
	switch mode {
	case 0:
		return io.ReadAll(st)
	case 1:
		var one [1]byte
		for {
			n, e := st.Read(one[:])
			got = append(got, one[:n]...)
			if e != nil {
				if e == io.EOF {
					e = nil
				}
				return got, e
			}
			if len(got) > 1<<26 {
				return got, fmt.Errorf("runaway stream")
			}
		}
	default:
		buf := make([]byte, 4097)
		for {
			n, e := st.Read(buf)
			got = append(got, buf[:n]...)
			if e != nil {
				if e == io.EOF {
					e = nil
				}
				return got, e
			}
			if len(got) > 1<<26 {
				return got, fmt.Errorf("runaway stream")
			}
		}
	}
}

var drainNames = []string{"io.ReadAll", "1-byte reads", "4097-byte reads"}

type c07Case struct {
	Seed, Loader, End, Drain string
	Position, Chunk          int
	Hex                      string
}

func c07One(r *ev.Run, seed *Case, l *loaderFn, failAt, kind, chunk, mode int) {
	src := &failSrc{data: seed.Data, failAt: failAt, kind: kind, chunk: chunk}
	o, st := load(l, src)
	cs := func() interface{} {
		return c07Case{seed.Name, l.Name, kindNames[kind], drainNames[mode], failAt, chunk, hexHead(seed.Data, 256)}
	}
	key := "replay/" + l.Name
	if o.Panic != "" {
		r.Violate(key+"/panic", fmt.Sprintf("%s.Load panicked: %s [%s ending with %s at %d]", l.Name, o.Panic, seed.Name, kindNames[kind], failAt), cs(), nil)
		return
	}
	if st == nil {
		r.Violate(key+"/nil-stream", fmt.Sprintf("%s.Load returned a nil stream [%s ending with %s at %d]", l.Name, seed.Name, kindNames[kind], failAt), cs(), nil)
		return
	}
	var got []byte
	var err error
	func() {
		defer func() {
			if p := recover(); p != nil {
				err = fmt.Errorf("panic while draining: %v", p)
			}
		}()
		got, err = drain(st, mode)
	}()
	want := seed.Data[:src.delivered]
	if src.delivered != failAt {
		// the source was not asked for everything it had: impossible after a drain
		r.Violate(key+"/not-drained", fmt.Sprintf("%s: draining the returned stream pulled only %d of %d source bytes [%s ending with %s]", l.Name, src.delivered, failAt, seed.Name, kindNames[kind]), cs(), nil)
		return
	}
	if !bytes.Equal(got, want) {
		at := 0
		for at < len(got) && at < len(want) && got[at] == want[at] {
			at++
		}
		r.Violate(key+"/bytes", fmt.Sprintf("%s: returned stream yields %d bytes, source delivered %d; first difference at offset %d [%s ending with %s at %d, chunk %d, drained by %s]", l.Name, len(got), len(want), at, seed.Name, kindNames[kind], failAt, chunk, drainNames[mode]), cs(), nil)
		return
	}
	if kind >= 2 {
		if err != envx.ErrInjected {
			r.Violate(key+"/error-not-surfaced", fmt.Sprintf("%s: source failed with an I/O error at %d but the stream ended with %v [%s]", l.Name, failAt, err, seed.Name), cs(), nil)
		}
	} else if err != nil {
		r.Violate(key+"/spurious-error", fmt.Sprintf("%s: clean source but the stream ended with %v [%s cut at %d]", l.Name, err, seed.Name, failAt), cs(), nil)
	}
}

// C07: the returned stream replays the complete input.
func C07(tier string) {
	r := ev.Begin("C07", tier, "fault_enumeration")
	envxSelfTest(r, "harness")
	if r.NViolations() > 0 {
		r.Finish()
	}
	r.NotExhaustive()
	small := append(smallSeeds(), corruptSeeds()...)
	repo := repoImages()
	r.Rule(fmt.Sprintf("seeds: %d small synthetic files (one per format variant and one per parser error branch, empty input) and the %d repository images; for every seed: EVERY end position 0..len (every position up to 8 KiB and the last 64 for larger files) x 4 endings {EOF, data+EOF, I/O error, data+I/O error} x delivery {all at once, 1 byte per call; thorough adds 2,3,7,4095,4097} x 4 loaders x drains {io.ReadAll, 1-byte reads, 4097-byte reads}; every sequence of up to 4 (thorough 5) operations {Load(loader, file), drain(any earlier stream)} over five small files in one process; every 32-bit window of each seed (extended by 9,000 payload bytes) set to 16 boundary values in both byte orders; every single-byte substitution of every seed; sources of other dynamic types (bytes.Reader, strings.Reader, bufio.Reader, bytes.Buffer, os.File) handed over at offset 0 and positioned 1/16/5000 bytes into their data; thorough adds a depth-first exploration of all reader answer sequences (short reads, data+EOF, errors) with <= 2 deviations on the small seeds; distinct = (seed, loader, end position, ending) combinations", len(small), len(repo)))
	r.Assume("truncation at t and an I/O error at position p are alternative endings of the same source (bytes beyond the end are never observed), so positions x endings is the full matrix of the quantifier")

	chunks := []int{0, 1}
	if tier == "thorough" {
		chunks = []int{0, 1, 2, 3, 7, 4095, 4097}
	}
	type job struct {
		seed *Case
		pos  int
		big  bool
	}
	var jobs []job
	for i := range small {
		for p := 0; p <= len(small[i].Data); p++ {
			jobs = append(jobs, job{&small[i], p, false})
		}
	}
	for i := range repo {
		n := len(repo[i].Data)
		for p := 0; p <= n && p <= 8192; p++ {
			jobs = append(jobs, job{&repo[i], p, true})
		}
		for p := maxInt(8193, n-64); p <= n; p++ {
			jobs = append(jobs, job{&repo[i], p, true})
		}
		for _, p := range []int{12288, 65535, 65536, 65537, n / 2} {
			if p > 8192 && p < n-64 {
				jobs = append(jobs, job{&repo[i], p, true})
			}
		}
	}
	var next atomic.Int64
	r.Par(ev.Workers(), func(shard, n int) {
		var evals, distinct int64
		for {
			ji := int(next.Add(1) - 1)
			if ji >= len(jobs) || r.NViolations() > 20 {
				break
			}
			if ji%512 == 0 && r.OutOfTime() {
				r.Cap("time budget")
				break
			}
			j := jobs[ji]
			for li := range loaders {
				for kind := 0; kind < 4; kind++ {
					distinct++
					for _, ch := range chunks {
						if j.big && ch == 1 && j.pos%61 != 0 {
							continue // 1-byte delivery of multi-KiB prefixes: every 61st position
						}
						if j.big {
							c07One(r, j.seed, &loaders[li], j.pos, kind, ch, (j.pos+kind)%3)
							evals++
						} else {
							for mode := 0; mode < 3; mode++ {
								c07One(r, j.seed, &loaders[li], j.pos, kind, ch, mode)
								evals++
							}
						}
					}
				}
			}
		}
		r.Eval(evals)
		r.DistinctN(distinct)
	})

	// the returned stream handed to a loader again after the caller has read part of
	// it (skipping a wrapper, or the second of two images stored back to back): the
	// second loader's stream must replay exactly what the first stream still had
	{
		seeds := smallSeeds()
		var rl int64
		for si := range seeds {
			data := seeds[si].Data
			for _, n := range []int{0, 1, 5, len(data) / 2, len(data)} {
				for l1 := range loaders {
					for l2 := range loaders {
						var got []byte
						var rerr error
						pan := ""
						func() {
							defer func() {
								if p := recover(); p != nil {
									pan = fmt.Sprint(p)
								}
							}()
							_, s1, _ := loaders[l1].Load(bytes.NewReader(data))
							if s1 == nil {
								pan = "nil stream from the first load"
								return
							}
							head := make([]byte, n)
							if _, err := io.ReadFull(s1, head); err != nil || !bytes.Equal(head, data[:n]) {
								pan = fmt.Sprintf("first stream does not start with the input (err %v)", err)
								return
							}
							_, s2, _ := loaders[l2].Load(s1)
							if s2 == nil {
								pan = "nil stream from the second load"
								return
							}
							got, rerr = io.ReadAll(s2)
						}()
						rl++
						if pan != "" || rerr != nil || !bytes.Equal(got, data[n:]) {
							r.Violate("reload/"+loaders[l2].Name, fmt.Sprintf("%s.Load on the stream returned by %s.Load of %s after the caller read %d bytes of it: the new stream yields %d bytes (err %v, %s), %d were left", loaders[l2].Name, loaders[l1].Name, seeds[si].Name, n, len(got), rerr, pan, len(data)-n), nil, nil)
						}
					}
				}
			}
		}
		r.Eval(rl)
	}

	// a source that stalls: data stops for a few seconds in the middle of the
	// metadata and then continues (a pipe, a slow network body). A loader with a
	// time limit of its own must still hand back a stream that replays everything
	// the source delivers. One stall of 2.5 s per loader and seed, all in parallel.
	{
		type stallJob struct {
			seed *Case
			li   int
			at   int
		}
		seeds := smallSeeds()
		var jobs []stallJob
		for _, si := range []int{1, 4, 8} { // png+iCCP, jpeg+ICC2, webp VP8X+ICCP
			for _, li := range []int{loaderIndexFor(seeds[si].Info.Format), 3} {
				jobs = append(jobs, stallJob{&seeds[si], li, 20})
			}
		}
		var swg sync.WaitGroup
		for _, j := range jobs {
			j := j
			swg.Add(1)
			go func() {
				defer swg.Done()
				src := &stallingReader{data: j.seed.Data, at: j.at, pause: 2500 * time.Millisecond}
				var got []byte
				var lerr, rerr error
				func() {
					defer func() {
						if p := recover(); p != nil {
							lerr = fmt.Errorf("panic: %v", p)
						}
					}()
					_, st, err := loaders[j.li].Load(src)
					lerr = err
					if st != nil {
						got, rerr = io.ReadAll(st)
					}
				}()
				r.Eval(1)
				if !bytes.Equal(got, j.seed.Data) || rerr != nil {
					r.Violate("stalling-source/"+loaders[j.li].Name, fmt.Sprintf("%s.Load of %s from a source that pauses 2.5 s after %d bytes: the returned stream yields %d bytes (error %v, Load error %v), the source delivered all %d", loaders[j.li].Name, j.seed.Name, j.at, len(got), rerr, lerr, len(j.seed.Data)), nil, nil)
				}
			}()
		}
		swg.Wait()
	}

	// sources of other dynamic types: the loaders take an io.Reader, but a
	// bytes.Reader / strings.Reader / bufio.Reader / os.File also offers Seek,
	// WriteTo, ReadByte..., and may be handed over already positioned past a
	// prefix the caller consumed. Whatever a loader does with those
	// capabilities, the stream must replay what the source had left.
	var capEvalsA atomic.Int64
	allSeeds := append(append([]Case{}, small...), repo...)
	_ = os.MkdirAll(filepath.Join(ev.Root(), ".work"), 0o755)
	r.Par(ev.Workers(), func(shard, nshards int) {
		tmpf, _ := os.CreateTemp(filepath.Join(ev.Root(), ".work"), "c07-*")
		if tmpf != nil {
			defer os.Remove(tmpf.Name())
			defer tmpf.Close()
		}
		var capEvals int64
		for si := shard; si < len(allSeeds); si += nshards {
			seed := &allSeeds[si]
			cuts := []int{0, 1, 7, 8, 12, len(seed.Data) / 2, len(seed.Data) - 1, len(seed.Data)}
			if len(seed.Data) <= 600 {
				cuts = cuts[:0]
				for t := 0; t <= len(seed.Data); t++ {
					cuts = append(cuts, t)
				}
			}
			for _, t := range cuts {
				if t < 0 || t > len(seed.Data) {
					continue
				}
				want := seed.Data[:t]
				for _, junk := range []int{0, 1, 16, 5000} {
					whole := append(bytes.Repeat([]byte{0xFF, 0xD8, 0x89, 'P'}, junk/4+1)[:junk], want...)
					mk := map[string]func() io.Reader{
						"bytes.Reader": func() io.Reader {
							b := bytes.NewReader(whole)
							b.Seek(int64(junk), io.SeekStart)
							return b
						},
						"strings.Reader": func() io.Reader {
							b := strings.NewReader(string(whole))
							b.Seek(int64(junk), io.SeekStart)
							return b
						},
						"bufio.Reader": func() io.Reader {
							b := bufio.NewReaderSize(bytes.NewReader(whole), 64)
							b.Discard(junk)
							return b
						},
						"bytes.Buffer": func() io.Reader {
							b := bytes.NewBuffer(append([]byte(nil), whole...))
							b.Next(junk)
							return b
						},
					}
					if tmpf != nil && (len(seed.Data) <= 600 && t%5 == 0 || len(seed.Data) > 600) {
						mk["os.File"] = func() io.Reader {
							tmpf.Truncate(0)
							tmpf.WriteAt(whole, 0)
							tmpf.Seek(int64(junk), io.SeekStart)
							return tmpf
						}
					}
					for kindName, f := range mk {
						for li := range loaders {
							l := &loaders[li]
							o, st := load(l, f())
							capEvals++
							var got []byte
							var err error
							if st != nil && o.Panic == "" {
								got, err = drain(st, (t+junk)%3)
							}
							if o.Panic != "" || st == nil || err != nil || !bytes.Equal(got, want) {
								r.Violate("source-type/"+l.Name+"/"+kindName, fmt.Sprintf("%s.Load on a %s positioned %d bytes into its data: stream yields %d bytes (err %v, panic %q), the source had %d bytes left [%s cut at %d]", l.Name, kindName, junk, len(got), err, o.Panic, len(want), seed.Name, t),
									c07Case{seed.Name, l.Name, "EOF from a " + kindName, "", t, junk, hexHead(seed.Data, 128)}, nil)
							}
						}
					}
				}
			}
		}
		capEvalsA.Add(capEvals)
	})
	r.Eval(capEvalsA.Load())
	r.Set("source_type_executions", capEvalsA.Load())

	// hostile length fields on inputs larger than the read-ahead: every 32-bit
	// window (both byte orders) of each small seed set to each boundary value,
	// with 9,000 bytes of payload appended so that part of the input is still in
	// the source when Load returns
	{
		tailB := make([]byte, 9000)
		lcg(tailB, 7)
		vals := []uint32{0, 1, 2, 3, 4, 8, 9, 10, 12, 255, 4096, 65535, 1 << 24, 1<<31 - 1, 1 << 31, 1<<32 - 1}
		base := smallSeeds()
		r.Par(ev.Workers(), func(shard, n int) {
			var evals int64
			for si := range base {
				seed := base[si]
				data := append(append([]byte(nil), seed.Data...), tailB...)
				for at := shard; at+4 <= len(seed.Data); at += n {
					for _, v := range vals {
						for _, le := range []bool{false, true} {
							b := append([]byte(nil), data...)
							if le {
								b[at], b[at+1], b[at+2], b[at+3] = byte(v), byte(v>>8), byte(v>>16), byte(v>>24)
							} else {
								b[at], b[at+1], b[at+2], b[at+3] = byte(v>>24), byte(v>>16), byte(v>>8), byte(v)
							}
							c := Case{fmt.Sprintf("%s + 9000 bytes, 32-bit field at %d = %#x (little-endian %v)", seed.Name, at, v, le), b, seed.Info}
							for _, l := range []*loaderFn{loaderFor(seed.Info.Format), &loaders[3]} {
								c07One(r, &c, l, len(b), 0, 0, (at+int(v))%3)
								evals++
							}
						}
					}
				}
			}
			r.Eval(evals)
			r.DistinctN(evals)
		})
	}

	// every single-byte substitution (255 values x every position) of the small
	// well-formed seeds and of a JPEG with short segments after its frame header:
	// whatever a loader makes of the damage, the stream replays the input
	{
		base := smallSeeds()
		{
			spec := gen.JPEGSpec{SOFMarker: 0xC0, Precision: 8, W: 33, H: 21, Comps: jpegComps(3, []byte{1, 1, 1, 1, 1, 1}),
				Before: []gen.JPEGSeg{jpegSegByName("COM")}, After: []gen.JPEGSeg{jpegSegByName("DRI"), {Marker: 0xFE, Data: []byte("ab")}, jpegSegByName("DHT")}, Scan: []byte{1}}
			d, evs := spec.Build()
			base = append(base, Case{"seed jpeg with short segments after SOF", d, gen.JPEGModel(spec, evs)})
		}
		type sj struct {
			s   *Case
			pos int
		}
		var sjobs []sj
		for i := range base {
			for p := range base[i].Data {
				sjobs = append(sjobs, sj{&base[i], p})
			}
		}
		r.Par(ev.Workers(), func(shard, n int) {
			var evals int64
			for ji := shard; ji < len(sjobs); ji += n {
				j := sjobs[ji]
				buf := append([]byte(nil), j.s.Data...)
				for v := 0; v < 256; v++ {
					if byte(v) == j.s.Data[j.pos] {
						continue
					}
					buf[j.pos] = byte(v)
					c := Case{Name: fmt.Sprintf("%s with byte %d set to %#02x", j.s.Name, j.pos, v), Data: buf}
					for _, l := range []*loaderFn{loaderFor(j.s.Info.Format), &loaders[3]} {
						c07One(r, &c, l, len(buf), 0, 0, v%3)
						evals++
					}
				}
				if r.NViolations() > 20 {
					break
				}
			}
			r.Eval(evals)
			r.DistinctN(evals)
		})
	}

	// operation sequences: a stream may be drained after any number of later Loads
	sd := 4
	if tier == "thorough" {
		sd = 5
	}
	loaderSequences(r, sd, "sequence", false, true)

	// thorough: answer-sequence exploration with errors on the small seeds
	if tier == "thorough" {
		var st envx.Stats
		for i := range small {
			seed := &small[i]
			for li := range loaders {
				l := &loaders[li]
				envx.Explore(2, func(prefix []int) (*envx.Src, string) {
					src := &envx.Src{Data: seed.Data, Alpha: envx.Alphabet{Shorts: true, EOFs: true, Errors: true}, Prefix: prefix}
					o, stream := load(l, src)
					if o.Panic != "" || stream == nil {
						r.Violate("dfs/"+l.Name+"/panic-or-nil", fmt.Sprintf("%s.Load panicked or returned a nil stream: %s [%s, answers %s]", l.Name, o.Panic, seed.Name, envx.TraceString(src.Trace)), nil, nil)
						return src, "panic"
					}
					ntr := len(src.Trace)
					got, err := drain(stream, len(prefix)%3)
					want := seed.Data[:src.Delivered]
					label := "clean"
					if src.Failed() {
						label = "io-error"
						if err != envx.ErrInjected {
							r.Violate("dfs/"+l.Name+"/error-not-surfaced", fmt.Sprintf("%s: injected error not surfaced (%v) [%s, answers %s]", l.Name, err, seed.Name, envx.TraceString(src.Trace)), nil, nil)
						}
					} else if err != nil || src.Delivered != int64(len(seed.Data)) {
						r.Violate("dfs/"+l.Name+"/incomplete", fmt.Sprintf("%s: clean source, stream ended with %v after %d of %d bytes [%s, answers %s]", l.Name, err, src.Delivered, len(seed.Data), seed.Name, envx.TraceString(src.Trace)), nil, nil)
					}
					if !bytes.Equal(got, want) {
						r.Violate("dfs/"+l.Name+"/bytes", fmt.Sprintf("%s: stream yields %d bytes, source delivered %d [%s, answers %s]", l.Name, len(got), len(want), seed.Name, envx.TraceString(src.Trace)), nil, nil)
					}
					// only the calls made during Load are choice points for the search
					src.Trace = src.Trace[:ntr]
					return src, label
				}, &st)
			}
		}
		r.Eval(st.Executions)
		r.Set("dfs_executions", st.Executions)
		r.Set("dfs_choice_points", st.ChoicePts)
		r.Set("dfs_outcomes", st.Outcomes)
	}
	r.Sample(c07Case{"seed jpeg+ICC2", "autometa", "data+I/O error", "1-byte reads", 57, 1, hexHead(small[4].Data, 64)})
	r.Sample(c07Case{"repo pizza-rgb8-srgb.png", "pngmeta", "EOF", "io.ReadAll", 4097, 0, ""})
	r.Finish()
}

// stallingReader delivers data[:at], then sleeps once, then the rest.
type stallingReader struct {
	mu     sync.Mutex // one Read at a time, like a pipe: a second reader waits behind the stalled one
	data   []byte
	pos    int
	at     int
	pause  time.Duration
	paused bool
}

func (s *stallingReader) Read(p []byte) (int, error) {
	s.mu.Lock()
	defer s.mu.Unlock()
	if s.pos >= len(s.data) {
		return 0, io.EOF
	}
	end := len(s.data)
	if !s.paused {
		if s.pos >= s.at {
			s.paused = true
			time.Sleep(s.pause)
		} else if end > s.at {
			end = s.at
		}
	}
	n := copy(p, s.data[s.pos:end])
	s.pos += n
	return n, nil
}

func loaderIndexFor(format string) int {
	switch format {
	case "PNG":
		return 0
	case "JPEG":
		return 1
	}
	return 2
}
