package props

import (
	"bufio"
	"bytes"
	"fmt"
	"io"
	"strings"
	"sync"
	"sync/atomic"

	"github.com/mandykoh/prism/meta/icc"

	"verif/engine/envx"
	"verif/engine/ev"
	"verif/gen"
)

// byteSrc gives a scripted source the ReadByte method the ICC reader needs,
// without any buffering of its own.
type byteSrc struct{ *envx.Src }

func (b byteSrc) ReadByte() (byte, error) {
	var one [1]byte
	for {
		n, err := b.Src.Read(one[:])
		if n == 1 {
			return one[0], nil
		}
		if err != nil {
			return 0, err
		}
	}
}

func iccOutcome(rd interface {
	io.Reader
	io.ByteReader
}) (s string) {
	defer func() {
		if p := recover(); p != nil {
			s = fmt.Sprintf("PANIC %v", p)
		}
	}()
	p, err := icc.NewProfileReader(rd).ReadProfile()
	if err != nil || p == nil {
		return "read-error"
	}
	d, derr := p.Description()
	return fmt.Sprintf("%+v|desc=%q|descErr=%v", p.Header, d, derr != nil)
}

func c08Inputs(tier string) (dfs []Case, uniformOnly []Case) {
	dfs = append(dfs, smallSeeds()...)
	dfs = append(dfs, corruptSeeds()...)
	for _, c := range smallSeeds() {
		for _, cut := range []int{len(c.Data) / 3, len(c.Data) - 1} {
			dfs = append(dfs, Case{fmt.Sprintf("%s cut at %d", c.Name, cut), c.Data[:cut], gen.Info{Format: c.Info.Format}})
		}
	}
	pngGrammar(1, func(c Case) {
		if strings.Contains(c.Name, "header at offset") || strings.Contains(c.Name, "il0 [") && (strings.Contains(c.Name, "ct2 bd8") || strings.Contains(c.Name, "ct3 bd4")) {
			dfs = append(dfs, c)
		}
	})
	for _, n := range []int{3500, 3990, 4000, 4010, 4020, 4030, 4040, 4050, 4060, 4070, 4080, 4090, 4100, 4200, 8100, 8150, 8200, 8250, 12000, 20000} {
		prof := testProfile(n, "lcg")
		spec := gen.PNGSpec{W: 9, H: 9, BitDepth: 8, ColorType: 2, IDAT: []byte{0x78, 0x9c, 3, 0, 0, 0, 0, 1}}
		spec.Pre = []gen.PNGChunk{{Type: "iCCP", Data: gen.ICCPChunk("p", prof, 0)}, pngAncillary("tEXt")}
		d, i := spec.Build(prof, 0)
		dfs = append(dfs, Case{fmt.Sprintf("png iCCP %d bytes stored", n), d, i})
		dw, iw := gen.WebPVP8X(0x20, 3, 3, prof, nil)
		dfs = append(dfs, Case{fmt.Sprintf("webp ICCP %d bytes", n), dw, iw})
		p2 := prof
		spec2 := gen.JPEGSpec{SOFMarker: 0xC0, Precision: 8, W: 8, H: 8, Comps: jpegComps(1, []byte{1, 1}), Before: []gen.JPEGSeg{gen.ICCSeg(2, 2, p2[n/2:]), gen.ICCSeg(1, 2, p2[:n/2])}, Scan: []byte{0}}
		dj, evs := spec2.Build()
		dfs = append(dfs, Case{fmt.Sprintf("jpeg ICC %d bytes in 2 chunks reversed", n), dj, gen.JPEGModel(spec2, evs)})
	}
	webpGrammar(func(c Case) {
		if !strings.Contains(c.Name, "flags") || strings.Contains(c.Name, "0x1") {
			dfs = append(dfs, c)
		}
	})
	for _, c := range repoImages() {
		if len(c.Data) <= 64<<10 {
			dfs = append(dfs, c)
		} else {
			uniformOnly = append(uniformOnly, c)
		}
	}
	for _, n := range []int{70000, 1 << 20} {
		prof := testProfile(n, "lcg")
		spec := gen.PNGSpec{W: 9, H: 9, BitDepth: 8, ColorType: 2, IDAT: []byte{0x78, 0x9c, 3, 0, 0, 0, 0, 1}}
		spec.Pre = []gen.PNGChunk{{Type: "iCCP", Data: gen.ICCPChunk("p", prof, 1)}}
		d, i := spec.Build(prof, 0)
		uniformOnly = append(uniformOnly, Case{fmt.Sprintf("png iCCP %d bytes", n), d, i})
		dw, iw := gen.WebPVP8X(0x20, 3, 3, prof, nil)
		uniformOnly = append(uniformOnly, Case{fmt.Sprintf("webp ICCP %d bytes", n), dw, iw})
	}
	return
}

func c08Profiles() []Case {
	var out []Case
	for _, c := range repoImages() {
		o, _ := load(loaderFor(c.Info.Format), bytes.NewReader(c.Data))
		if !o.ICCNil && len(o.ICC) > 0 {
			out = append(out, Case{"profile of " + c.Name, o.ICC, gen.Info{}})
		}
	}
	mk := func(name string, l gen.ICCLayout) { out = append(out, Case{name, l.Build(), gen.Info{}}) }
	mk("synthetic v2 desc", gen.ICCLayout{Major: 2, Tags: []gen.ICCTag{{Sig: gen.Sig("desc"), Block: 0}, {Sig: gen.Sig("cprt"), Block: 1}}, Blocks: [][]byte{gen.DescV2([]byte("Synthetic v2")), fillerBlock(3)}})
	m, _ := gen.Mluc([]gen.MlucRecord{{Lang: "fr", Country: "FR", Text: "Nom"}, {Lang: "en", Country: "US", Text: "Synthetic v4 😀"}, {Lang: "ja", Country: "JP", Text: "色"}}, 16, gen.MlucReverse)
	mk("synthetic v4 mluc x3", gen.ICCLayout{Major: 4, Tags: []gen.ICCTag{{Sig: gen.Sig("cprt"), Block: 0}, {Sig: gen.Sig("desc"), Block: 1}}, Blocks: [][]byte{fillerBlock(1), m}, BlockOrder: []int{1, 0}, PadBefore: []int{3, 1}})
	mk("synthetic no tags", gen.ICCLayout{Major: 4})
	mk("synthetic 6000-byte v2", gen.ICCLayout{Major: 2, Tags: []gen.ICCTag{{Sig: gen.Sig("A2B0"), Block: 0}, {Sig: gen.Sig("desc"), Block: 1}}, Blocks: [][]byte{testProfile(5800, "lcg"), gen.DescV2([]byte("Six thousand"))}})
	mk("synthetic 70000-byte v4", gen.ICCLayout{Major: 4, Tags: []gen.ICCTag{{Sig: gen.Sig("desc"), Block: 1}, {Sig: gen.Sig("A2B0"), Block: 0}}, Blocks: [][]byte{testProfile(69000, "lcg"), m}})
	good := out[len(out)-4].Data
	out = append(out, Case{"synthetic truncated", good[:len(good)-9], gen.Info{}})
	out = append(out, Case{"synthetic header only", good[:128], gen.Info{}})
	bad := append([]byte(nil), good...)
	bad[36] = 'x'
	out = append(out, Case{"synthetic bad signature", bad, gen.Info{}})
	return out
}

// clobberLoads runs every loader once on files of different content, so that
// state shared between Load calls (pooled buffers, views into read buffers)
// gets overwritten; results obtained before must not change.
var clobberFiles = func() []Case {
	prof := bytes.Repeat([]byte{0xEE}, 4000)
	var out []Case
	spec := gen.PNGSpec{W: 1, H: 1, BitDepth: 8, ColorType: 2, IDAT: []byte{0x78, 0x9c, 3, 0, 0, 0, 0, 1}, Pre: []gen.PNGChunk{{Type: "iCCP", Data: gen.ICCPChunk("c", prof, 0)}}}
	d, i := spec.Build(prof, 0)
	out = append(out, Case{"clobber png", d, i})
	js := gen.JPEGSpec{SOFMarker: 0xC0, Precision: 8, W: 1, H: 1, Comps: jpegComps(1, []byte{1, 1}), Before: []gen.JPEGSeg{gen.ICCSeg(1, 1, prof)}, Scan: []byte{0}}
	dj, evs := js.Build()
	out = append(out, Case{"clobber jpeg", dj, gen.JPEGModel(js, evs)})
	dw, iw := gen.WebPVP8X(0x20, 0, 0, prof, nil)
	out = append(out, Case{"clobber webp", dw, iw})
	return out
}()

func clobberLoads() {
	for i := range clobberFiles {
		_, _ = load(loaderFor(clobberFiles[i].Info.Format), bytes.NewReader(clobberFiles[i].Data))
		_, _ = load(&loaders[3], bytes.NewReader(clobberFiles[i].Data))
	}
}

type c08Sample struct {
	Input, Loader, Schedule, Outcome string
}

// C08: results do not depend on how the reader segments its data.
func C08(tier string) {
	r := ev.Begin("C08", tier, "model_checking")
	envxSelfTest(r, "harness")
	if r.NViolations() > 0 {
		r.Finish()
	}
	r.NotExhaustive()
	bound := 2
	if tier == "thorough" {
		bound = 3
	}
	dfsIn, uniIn := c08Inputs(tier)
	profiles := c08Profiles()
	r.Rule(fmt.Sprintf("reader-answer exploration: every Read call of the source is a choice point with answers {FULL, FULL+EOF (last bytes), SHORT(1), SHORT(2), SHORT(3), SHORT(n/2), SHORT(n-1)}; depth-first over all answer sequences with <= %d deviations from FULL, each executed on a fresh loader (specific + autometa) and compared with the all-at-once outcome over bytes.Reader (when a profile was returned, three other files are loaded before the comparison, so a result that is only a view into shared buffers shows); inputs: %d files <= 64 KiB (format seeds, corrupt and truncated variants, PNG chunk headers across the 4096/8192 boundaries, ICC payloads around buffer sizes in all three containers, WebP header grammar, small repository images); uniform schedules 1,2,3,7,8,4095,4096,4097 bytes per call with and without EOF piggy-backed on those plus %d larger files; ICC reader: %d profiles behind no buffer, bufio(16) and bufio(4096) under the same exploration; states = choice points visited, transitions = answers taken, traces = executions", bound, len(dfsIn), len(uniIn), len(profiles)))
	r.Assume("(0, nil) answers are not generated: the property lists all-at-once, one byte per call, arbitrary short reads and final data together with EOF")
	r.Assume("error texts are not compared, only presence of an error / ICC error, metadata fields and ICC bytes")

	var mu sync.Mutex
	total := envx.Stats{Outcomes: map[string]int{}}
	merge := func(st *envx.Stats) {
		mu.Lock()
		total.Executions += st.Executions
		total.ChoicePts += st.ChoicePts
		total.Transitions += st.Transitions
		if st.MaxDepth > total.MaxDepth {
			total.MaxDepth = st.MaxDepth
		}
		for k, v := range st.Outcomes {
			total.Outcomes[k] += v
		}
		mu.Unlock()
	}
	var sampled atomic.Int32

	type job struct {
		c *Case
		l *loaderFn
	}
	var jobs []job
	for i := range dfsIn {
		c := &dfsIn[i]
		jobs = append(jobs, job{c, &loaders[3]})
		if c.Info.Format != "" {
			jobs = append(jobs, job{c, loaderFor(c.Info.Format)})
		} else {
			for li := 0; li < 3; li++ {
				jobs = append(jobs, job{c, &loaders[li]})
			}
		}
	}
	var next atomic.Int64
	r.Par(ev.Workers(), func(shard, n int) {
		for {
			ji := int(next.Add(1) - 1)
			if ji >= len(jobs) || r.NViolations() > 20 {
				return
			}
			if r.OutOfTime() {
				r.Cap("time budget")
				return
			}
			c, l := jobs[ji].c, jobs[ji].l
			base, _ := load(l, bytes.NewReader(c.Data))
			var st envx.Stats
			// determinism: the default schedule twice
			var first string
			for rep := 0; rep < 2; rep++ {
				src := &envx.Src{Data: c.Data, Alpha: envx.Alphabet{Shorts: true, EOFs: true}}
				o, _ := load(l, src)
				s := o.String() + "|" + envx.TraceString(src.Trace)
				if rep == 0 {
					first = s
				} else if s != first {
					r.Violate("harness/nondeterminism", fmt.Sprintf("the same schedule gave two different executions on %s: %s vs %s", c.Name, first, s), nil, nil)
				}
			}
			envx.Explore(bound, func(prefix []int) (*envx.Src, string) {
				src := &envx.Src{Data: c.Data, Alpha: envx.Alphabet{Shorts: true, EOFs: true}, Prefix: prefix, MaxTrace: 48}
				o, _ := load(l, src)
				if !o.ICCNil {
					clobberLoads() // the result must stay what it was when other files are loaded afterwards
				}
				if !o.equal(base) {
					r.Violate("schedule/"+l.Name, fmt.Sprintf("%s.Load on %s: all at once gives [%s], under the schedule {%s} it gives [%s]", l.Name, c.Name, base, envx.TraceString(src.Trace), o),
						map[string]interface{}{"input": c.Name, "loader": l.Name, "choices": prefix, "schedule": envx.TraceString(src.Trace), "len": len(c.Data), "data_hex_first_256": hexHead(c.Data, 256)},
						func() bool {
							s2 := &envx.Src{Data: c.Data, Alpha: envx.Alphabet{Shorts: true, EOFs: true}, Prefix: prefix, MaxTrace: 48}
							o2, _ := load(l, s2)
							return o2.equal(o)
						})
				}
				if len(prefix) == 2 && sampled.Add(1) <= 3 {
					r.Sample(c08Sample{c.Name, l.Name, envx.TraceString(src.Trace), o.String()})
				}
				return src, o.String()
			}, &st)
			// uniform schedules
			for _, sz := range []int{1, 2, 3, 7, 8, 4095, 4096, 4097} {
				for _, eof := range []bool{false, true} {
					src := &envx.Src{Data: c.Data, Uniform: sz, UniformEOF: eof}
					o, _ := load(l, src)
					st.Executions++
					if !o.equal(base) {
						r.Violate("uniform/"+l.Name, fmt.Sprintf("%s.Load on %s: all at once gives [%s], delivered %d bytes per call (EOF with last data: %v) it gives [%s]", l.Name, c.Name, base, sz, eof, o),
							map[string]interface{}{"input": c.Name, "loader": l.Name, "bytes_per_call": sz, "eof_with_data": eof}, nil)
					}
				}
			}
			merge(&st)
			r.Distinct(c.Name + "/" + l.Name)
		}
	})
	// uniform schedules on the large files
	r.Par(ev.Workers(), func(shard, n int) {
		var st envx.Stats
		for i := shard; i < len(uniIn); i += n {
			c := &uniIn[i]
			for _, l := range []*loaderFn{loaderFor(c.Info.Format), &loaders[3]} {
				base, _ := load(l, bytes.NewReader(c.Data))
				for _, sz := range []int{1, 2, 3, 7, 8, 4095, 4096, 4097} {
					for _, eof := range []bool{false, true} {
						if sz < 7 && len(c.Data) > 600000 && eof {
							continue
						}
						src := &envx.Src{Data: c.Data, Uniform: sz, UniformEOF: eof}
						o, _ := load(l, src)
						st.Executions++
						if !o.equal(base) {
							r.Violate("uniform/"+l.Name, fmt.Sprintf("%s.Load on %s: all at once gives [%s], delivered %d bytes per call (EOF with last data: %v) it gives [%s]", l.Name, c.Name, base, sz, eof, o), nil, nil)
						}
					}
				}
				r.Distinct(c.Name + "/" + l.Name)
			}
		}
		merge(&st)
	})

	// ICC profile reader
	r.Par(ev.Workers(), func(shard, n int) {
		var st envx.Stats
		for i := shard; i < len(profiles); i += n {
			c := &profiles[i]
			base := iccOutcome(bytes.NewReader(c.Data))
			for _, front := range []string{"unbuffered", "bufio16", "bufio4096"} {
				wrap := func(src *envx.Src) interface {
					io.Reader
					io.ByteReader
				} {
					switch front {
					case "bufio16":
						return bufio.NewReaderSize(src, 16)
					case "bufio4096":
						return bufio.NewReaderSize(src, 4096)
					}
					return byteSrc{src}
				}
				b := bound
				if front == "unbuffered" && len(c.Data) > 1000 {
					b = 1
				}
				envx.Explore(b, func(prefix []int) (*envx.Src, string) {
					src := &envx.Src{Data: c.Data, Alpha: envx.Alphabet{Shorts: true, EOFs: true}, Prefix: prefix, MaxTrace: 40}
					if front == "unbuffered" {
						src.MaxTrace = 400
					}
					o := iccOutcome(wrap(src))
					if o != base {
						r.Violate("icc-schedule/"+front, fmt.Sprintf("ICC ReadProfile on %s behind %s: all at once gives [%s], under {%s} it gives [%s]", c.Name, front, trunc(base), envx.TraceString(src.Trace), trunc(o)),
							map[string]interface{}{"profile": c.Name, "front": front, "choices": prefix, "len": len(c.Data)}, nil)
					}
					return src, "icc:" + trunc(o)[:minI(20, len(trunc(o)))]
				}, &st)
				for _, sz := range []int{1, 2, 3, 7, 8, 4095, 4096, 4097} {
					for _, eof := range []bool{false, true} {
						src := &envx.Src{Data: c.Data, Uniform: sz, UniformEOF: eof}
						o := iccOutcome(wrap(src))
						st.Executions++
						if o != base {
							r.Violate("icc-uniform/"+front, fmt.Sprintf("ICC ReadProfile on %s behind %s: all at once gives [%s], %d bytes per call (EOF with data %v) gives [%s]", c.Name, front, trunc(base), sz, eof, trunc(o)), nil, nil)
						}
					}
				}
				r.Distinct(c.Name + "/icc/" + front)
			}
		}
		merge(&st)
	})

	r.States(total.ChoicePts)
	r.Trans(total.Transitions)
	r.Traces(total.Executions)
	r.Eval(total.Executions)
	nout := 0
	for range total.Outcomes {
		nout++
	}
	r.Set("distinct_outcomes_observed", nout)
	r.Set("max_choice_points_in_one_execution", total.MaxDepth)
	r.Set("deviation_bound_completed", bound)
	r.Finish()
}
