package props

import (
	"bufio"
	"bytes"
	"encoding/binary"
	"encoding/json"
	"fmt"
	"os"
	"os/exec"
	"path/filepath"
	"runtime"
	"runtime/metrics"
	"sort"
	"strconv"
	"strings"
	"sync"
	"syscall"
	"time"

	"github.com/mandykoh/prism/meta/icc"

	"verif/engine/ev"
	"verif/gen"
)

// ---- seeds ---------------------------------------------------------------

type c09Seed struct {
	Name   string
	Data   []byte
	Raw    bool  // a bare ICC profile (fed to the ICC reader) rather than an image
	Fields []int // offsets of 32-bit big-endian length/count/offset fields (for pair mutations)
}

func c09Profiles() []c09Seed {
	var out []c09Seed
	v2 := gen.ICCLayout{Major: 2, Tags: []gen.ICCTag{{Sig: gen.Sig("cprt"), Block: 0}, {Sig: gen.Sig("desc"), Block: 1}}, Blocks: [][]byte{fillerBlock(2), gen.DescV2([]byte("Hostile v2"))}}
	d := v2.Build()
	out = append(out, c09Seed{"icc v2 desc", d, true, []int{0, 128, 136, 140, 148, 152, 132 + 24 + len(fillerBlock(2)) + 8}})
	m1, _ := gen.Mluc([]gen.MlucRecord{{Lang: "en", Country: "US", Text: "Hostile v4"}}, 12, gen.MlucTableOrder)
	v4 := gen.ICCLayout{Major: 4, Tags: []gen.ICCTag{{Sig: gen.Sig("desc"), Block: 0}, {Sig: gen.Sig("cprt"), Block: 1}}, Blocks: [][]byte{m1, fillerBlock(1)}}
	d = v4.Build()
	base := 132 + 24
	out = append(out, c09Seed{"icc v4 mluc x1", d, true, []int{0, 128, 136, 140, 148, 152, base + 8, base + 12, base + 20, base + 24}})
	m3, _ := gen.Mluc([]gen.MlucRecord{{Lang: "fr", Country: "FR", Text: "Nom é"}, {Lang: "en", Country: "GB", Text: "Name 😀"}, {Lang: "ja", Country: "JP", Text: "色"}}, 16, gen.MlucReverse)
	v43 := gen.ICCLayout{Major: 4, Tags: []gen.ICCTag{{Sig: gen.Sig("cprt"), Block: 1}, {Sig: gen.Sig("desc"), Block: 0}}, Blocks: [][]byte{m3, fillerBlock(1)}, BlockOrder: []int{1, 0}}
	d = v43.Build()
	base = 132 + 24 + len(fillerBlock(1))
	out = append(out, c09Seed{"icc v4 mluc x3", d, true, []int{0, 128, 136, 140, 148, 152, base + 8, base + 12, base + 20, base + 24, base + 36, base + 40, base + 52, base + 56}})
	// v2 description whose ASCII part is empty and whose Unicode and ScriptCode parts
	// are present (a reader that falls back to them parses their counts too)
	{
		uni := []byte("desc\x00\x00\x00\x00\x00\x00\x00\x01\x00") // ASCII count 1: just the terminator
		uni = append(uni, 0, 0, 0, 0)                             // Unicode language code
		uni = append(uni, 0, 0, 0, 5)                             // Unicode count (UTF-16 code units incl. terminator)
		uni = append(uni, 0, 'N', 0, 'a', 0, 'm', 0, 'e', 0, 0)
		uni = append(uni, 0, 0, 4, 'M', 'a', 'c', 0) // ScriptCode code, count, text
		uni = append(uni, make([]byte, 63)...)
		vu := gen.ICCLayout{Major: 2, Tags: []gen.ICCTag{{Sig: gen.Sig("desc"), Block: 0}}, Blocks: [][]byte{uni}}
		d = vu.Build()
		base = 132 + 12
		out = append(out, c09Seed{"icc v2 desc empty ASCII + Unicode", d, true, []int{0, 128, 136, 140, base + 8, base + 17}})
	}
	out = append(out, c09Seed{"icc no tags", gen.ICCLayout{Major: 4}.Build(), true, []int{0, 128}})
	return out
}

func c09Seeds() []c09Seed {
	profs := c09Profiles()
	var out []c09Seed
	idat := []byte{0x78, 0x9c, 0x63, 0x60, 0x60, 0x60, 0, 0, 0, 4, 0, 1}
	for pi, p := range []int{2, 0} { // mluc x3 and v2 desc embedded in each container
		prof := profs[p].Data
		spec := gen.PNGSpec{W: 2, H: 2, BitDepth: 8, ColorType: 2, IDAT: idat, Pre: []gen.PNGChunk{pngAncillary("gAMA"), {Type: "iCCP", Data: gen.ICCPChunk("hostile", prof, 0)}}}
		d, _ := spec.Build(prof, 1)
		// stored deflate: the profile bytes sit in the clear at a known offset
		at := bytes.Index(d, prof[:16])
		var f []int
		f = append(f, 8, 33, 33+16) // IHDR length, gAMA length, iCCP length
		for _, o := range profs[p].Fields {
			f = append(f, at+o)
		}
		out = append(out, c09Seed{fmt.Sprintf("png+%s", profs[p].Name), d, false, f})
		js := gen.JPEGSpec{SOFMarker: 0xC0, Precision: 8, W: 48, H: 32, Comps: jpegComps(3, []byte{2, 2, 1, 1, 1, 1}), Scan: []byte{0xAB, 0xFF, 0x00, 0xCD}}
		if pi == 0 {
			js.Before = []gen.JPEGSeg{jpegSegByName("APP0"), gen.ICCSeg(1, 1, prof)}
		} else {
			h := len(prof) / 2
			js.Before = []gen.JPEGSeg{gen.ICCSeg(2, 2, prof[h:])}
			js.After = []gen.JPEGSeg{gen.ICCSeg(1, 2, prof[:h])}
		}
		dj, _ := js.Build()
		out = append(out, c09Seed{fmt.Sprintf("jpeg+%s", profs[p].Name), dj, false, nil})
		vp8, _ := gen.WebPVP8(20, 10, 0, 0, []byte{1, 2, 3, 4, 5, 6}, 0)
		dw, _ := gen.WebPVP8X(0x20, 19, 9, prof, vp8[12:])
		at = bytes.Index(dw, prof[:16])
		var fw []int
		for _, o := range profs[p].Fields {
			fw = append(fw, at+o)
		}
		out = append(out, c09Seed{fmt.Sprintf("webp+%s", profs[p].Name), dw, false, fw})
	}
	for _, c := range smallSeeds() {
		out = append(out, c09Seed{c.Name, c.Data, false, nil})
	}
	out = append(out, profs...)
	return out
}

var c09Values = func() []uint64 {
	v := []uint64{0, 1, 2, 3, 4, 7, 8, 9, 11, 12, 13, 15, 16, 17, 24, 127, 128, 129, 255, 256, 257, 4095, 4096, 65535, 65536, 1<<24 - 1, 1 << 24,
		1<<31 - 1, 1 << 31, 1<<31 + 1, 1<<32 - 1, 1<<32 - 2, 1<<32 - 4, 1<<32 - 12, 1<<32 - 16, 1<<32 - 128, 1<<32 - 4096}
	return v
}()

// ---- the case space ---------------------------------------------------------

type c09Family struct {
	Name  string
	Count int
	Make  func(i int) (string, []byte, bool)
}

func c09Space(tier string) (fams []c09Family, total int) {
	seeds := c09Seeds()
	rel := []int64{-12, -1, 1, 12} // field +/- 1, +/- 12 are added to the value list per field
	nvals := len(c09Values) + len(rel) + 3
	valueFor := func(k int, cur uint64, at, n int) uint64 {
		switch {
		case k < len(c09Values):
			return c09Values[k]
		case k < len(c09Values)+len(rel):
			return uint64(int64(cur) + rel[k-len(c09Values)])
		case k == nvals-3:
			return uint64(n) // the input's own length
		case k == nvals-2:
			return uint64(n - at) // exactly what is left after the field
		default:
			return (1 << 32) - cur // wraps a sibling sum
		}
	}
	for si := range seeds {
		s := seeds[si]
		n := len(s.Data)
		// (a) every 32-bit window (BE and LE) and every 16-bit BE window x boundary values
		win := maxInt(0, n-3)
		fams = append(fams, c09Family{"field32be/" + s.Name, win * nvals, func(i int) (string, []byte, bool) {
			at, k := i/nvals, i%nvals
			b := append([]byte(nil), s.Data...)
			v := valueFor(k, uint64(binary.BigEndian.Uint32(b[at:])), at, n)
			binary.BigEndian.PutUint32(b[at:], uint32(v))
			return fmt.Sprintf("%s: big-endian 32-bit field at %d = %#x", s.Name, at, uint32(v)), b, s.Raw
		}})
		if !s.Raw && strings.Contains(s.Name, "webp") {
			fams = append(fams, c09Family{"field32le/" + s.Name, win * nvals, func(i int) (string, []byte, bool) {
				at, k := i/nvals, i%nvals
				b := append([]byte(nil), s.Data...)
				v := valueFor(k, uint64(binary.LittleEndian.Uint32(b[at:])), at, n)
				binary.LittleEndian.PutUint32(b[at:], uint32(v))
				return fmt.Sprintf("%s: little-endian 32-bit field at %d = %#x", s.Name, at, uint32(v)), b, s.Raw
			}})
		}
		if !s.Raw && strings.Contains(s.Name, "jpeg") {
			fams = append(fams, c09Family{"field16be/" + s.Name, maxInt(0, n-1) * nvals, func(i int) (string, []byte, bool) {
				at, k := i/nvals, i%nvals
				b := append([]byte(nil), s.Data...)
				v := valueFor(k, uint64(binary.BigEndian.Uint16(b[at:])), at, n)
				binary.BigEndian.PutUint16(b[at:], uint16(v))
				return fmt.Sprintf("%s: big-endian 16-bit field at %d = %#x", s.Name, at, uint16(v)), b, s.Raw
			}})
		}
		// (b) every single-byte substitution
		fams = append(fams, c09Family{"subst/" + s.Name, n * 255, func(i int) (string, []byte, bool) {
			at, v := i/255, i%255
			b := append([]byte(nil), s.Data...)
			nv := byte(v)
			if nv >= b[at] {
				nv++
			}
			b[at] = nv
			return fmt.Sprintf("%s: byte %d = %#02x", s.Name, at, nv), b, s.Raw
		}})
		// (c) every truncation
		fams = append(fams, c09Family{"trunc/" + s.Name, n, func(i int) (string, []byte, bool) {
			return fmt.Sprintf("%s: cut at %d", s.Name, i), s.Data[:i], s.Raw
		}})
		// (a') pairs of annotated fields (thorough)
		if (tier == "thorough" || s.Raw) && len(s.Fields) >= 2 {
			nf := len(s.Fields)
			npairs := nf * (nf - 1) / 2
			fams = append(fams, c09Family{"pairs/" + s.Name, npairs * nvals * nvals, func(i int) (string, []byte, bool) {
				p, k := i/(nvals*nvals), i%(nvals*nvals)
				a, bb := 0, 1
				for q := 0; q < p; q++ {
					bb++
					if bb == nf {
						a++
						bb = a + 1
					}
				}
				b := append([]byte(nil), s.Data...)
				fa, fb := s.Fields[a], s.Fields[bb]
				va := valueFor(k/nvals, uint64(binary.BigEndian.Uint32(b[fa:])), fa, n)
				vb := valueFor(k%nvals, uint64(binary.BigEndian.Uint32(b[fb:])), fb, n)
				binary.BigEndian.PutUint32(b[fa:], uint32(va))
				binary.BigEndian.PutUint32(b[fb:], uint32(vb))
				return fmt.Sprintf("%s: fields at %d,%d = %#x,%#x", s.Name, fa, fb, uint32(va), uint32(vb)), b, s.Raw
			}})
		}
	}
	// (a'') thorough: two deviations anywhere - every pair of non-overlapping
	// big-endian 32-bit windows x {0, 2^31-1, 2^32-1, bytes remaining} each (no
	// field annotation: a lying length together with a lying count or offset,
	// wherever the two sit)
	if tier == "thorough" {
		for si := range seeds {
			s := seeds[si]
			n := len(s.Data)
			if n > 700 {
				continue
			}
			win := n - 3
			m := win - 4
			if m < 1 {
				continue
			}
			npairs := m * (m + 1) / 2
			rowStart := func(a int) int { return a*m - a*(a-1)/2 }
			pv := func(k, at int) uint32 {
				switch k {
				case 0:
					return 0
				case 1:
					return 1<<31 - 1
				case 2:
					return 1<<32 - 1
				}
				return uint32(n - at)
			}
			fams = append(fams, c09Family{"winpairs/" + s.Name, npairs * 16, func(i int) (string, []byte, bool) {
				p, k := i/16, i%16
				a := sort.Search(m, func(a int) bool { return rowStart(a+1) > p })
				bb := a + 4 + (p - rowStart(a))
				b := append([]byte(nil), s.Data...)
				va, vb := pv(k/4, a), pv(k%4, bb)
				binary.BigEndian.PutUint32(b[a:], va)
				binary.BigEndian.PutUint32(b[bb:], vb)
				return fmt.Sprintf("%s: 32-bit windows at %d,%d = %#x,%#x", s.Name, a, bb, va, vb), b, s.Raw
			}})
		}
	}
	// crafted amplification shapes (legal structures scaled up)
	crafted := c09Crafted(tier)
	fams = append(fams, c09Family{"crafted", len(crafted), func(i int) (string, []byte, bool) {
		return crafted[i].name, crafted[i].build(), crafted[i].raw
	}})
	for _, f := range fams {
		total += f.Count
	}
	return
}

type c09Craft struct {
	name  string
	raw   bool
	build func() []byte
}

func c09Crafted(tier string) []c09Craft {
	var out []c09Craft
	sizes := []int{8 << 10, 32 << 10, 128 << 10}
	if tier == "thorough" {
		sizes = append(sizes, 256<<10)
	}
	for _, n := range sizes {
		n := n
		// mluc whose records (n/24 of them) all designate one shared string of n/2 bytes
		out = append(out, c09Craft{fmt.Sprintf("icc mluc: %d records sharing one %d-byte string", n/24, n/2), true, func() []byte {
			return mlucShared(n/24, n/2, false)
		}})
		out = append(out, c09Craft{fmt.Sprintf("png iCCP carrying an mluc with %d records sharing one %d-byte string", n/24, n/2), false, func() []byte {
			prof := mlucShared(n/24, n/2, false)
			spec := gen.PNGSpec{W: 2, H: 2, BitDepth: 8, ColorType: 2, IDAT: []byte{0x78, 0x9c, 3, 0, 0, 0, 0, 1}, Pre: []gen.PNGChunk{{Type: "iCCP", Data: gen.ICCPChunk("m", prof, 1)}}}
			d, _ := spec.Build(prof, 0)
			return d
		}})
		out = append(out, c09Craft{fmt.Sprintf("icc mluc: %d records with distinct languages sharing one %d-byte string", n/24, n/2), true, func() []byte {
			return mlucShared(n/24, n/2, true)
		}})
		// deflate bomb: n bytes compressed from 1000n zeros
		out = append(out, c09Craft{fmt.Sprintf("png iCCP inflating %d zero bytes", 200*n), false, func() []byte {
			prof := make([]byte, 200*n)
			spec := gen.PNGSpec{W: 2, H: 2, BitDepth: 8, ColorType: 2, IDAT: []byte{0x78, 0x9c, 3, 0, 0, 0, 0, 1}, Pre: []gen.PNGChunk{{Type: "iCCP", Data: gen.ICCPChunk("z", prof, 9)}}}
			d, _ := spec.Build(prof, 0)
			return d
		}})
		// many tags / many tiny JPEG segments / many PNG chunks
		out = append(out, c09Craft{fmt.Sprintf("icc with %d tags sharing one block", n/12), true, func() []byte {
			l := gen.ICCLayout{Major: 4, Blocks: [][]byte{gen.DescV2([]byte("many tags"))}}
			for i := 0; i < n/12; i++ {
				l.Tags = append(l.Tags, gen.ICCTag{Sig: uint32(0x41000000 + i), Block: 0})
			}
			l.Tags[len(l.Tags)/2].Sig = gen.Sig("desc")
			return l.Build()
		}})
		out = append(out, c09Craft{fmt.Sprintf("jpeg with %d empty COM segments", n/4), false, func() []byte {
			b := []byte{0xFF, 0xD8}
			for i := 0; i < n/4; i++ {
				b = append(b, 0xFF, 0xFE, 0, 2)
			}
			return append(b, smallSeeds()[2].Data[2:]...)
		}})
		out = append(out, c09Craft{fmt.Sprintf("png with %d empty chunks", n/12), false, func() []byte {
			s := smallSeeds()[0].Data
			b := append([]byte(nil), s[:33]...)
			for i := 0; i < n/12; i++ {
				b = append(b, 0, 0, 0, 0, 't', 'E', 'X', 't', 0, 0, 0, 0)
			}
			return append(b, s[33:]...)
		}})
	}
	return out
}

// mlucShared builds a profile whose description tag has `records` records all
// pointing at one string of strBytes bytes (legal: strings may be shared).
func mlucShared(records, strBytes int, distinctLang bool) []byte {
	tag := []byte("mluc\x00\x00\x00\x00")
	tag = append(tag, 0, 0, 0, 0, 0, 0, 0, 12)
	binary.BigEndian.PutUint32(tag[8:], uint32(records))
	hdr := 16 + 12*records
	for i := 0; i < records; i++ {
		lang := []byte{'e', 'n', 'U', 'S'}
		if distinctLang {
			lang = []byte{byte('a' + (i/26)%26), byte('a' + i%26), byte('A' + (i/676)%26), byte('A' + (i/17576)%26)}
		}
		rec := append(lang, 0, 0, 0, 0, 0, 0, 0, 0)
		binary.BigEndian.PutUint32(rec[4:], uint32(strBytes))
		binary.BigEndian.PutUint32(rec[8:], uint32(hdr))
		tag = append(tag, rec...)
	}
	for i := 0; i < strBytes/2; i++ {
		tag = append(tag, 0x30, 0x42) // U+3042
	}
	return gen.ICCLayout{Major: 4, Tags: []gen.ICCTag{{Sig: gen.Sig("desc"), Block: 0}}, Blocks: [][]byte{tag}}.Build()
}

// ---- worker -----------------------------------------------------------------

func threadCPU() time.Duration {
	var ru syscall.Rusage
	_ = syscall.Getrusage(1 /* RUSAGE_THREAD */, &ru)
	return time.Duration(ru.Utime.Nano() + ru.Stime.Nano())
}

var allocSample = []metrics.Sample{{Name: "/gc/heap/allocs:bytes"}}

func allocBytes() uint64 {
	metrics.Read(allocSample)
	return allocSample[0].Value.Uint64()
}

type c09Result struct {
	Rank  int    `json:"rank"`
	Kind  string `json:"kind"`
	Name  string `json:"name"`
	Call  string `json:"call"`
	Desc  string `json:"desc"`
	Len   int    `json:"len"`
	Hex   string `json:"data_hex_first_65536"`
	Alloc uint64 `json:"alloc,omitempty"`
	CPUms int64  `json:"cpu_ms,omitempty"`
}

// c09Run executes one hostile input through every entry point, playing the caller.
func c09Run(rank int, name string, data []byte, raw bool, emit func(c09Result)) {
	budgetAlloc := uint64(1<<20 + 8192*len(data))
	budgetCPU := 2*time.Second + time.Duration(len(data))*50*time.Microsecond
	guard := func(call string, f func()) {
		a0, t0 := allocBytes(), threadCPU()
		func() {
			defer func() {
				if p := recover(); p != nil {
					emit(c09Result{rank, "panic", name, call, fmt.Sprintf("panic escaped to the caller: %v", p), len(data), hexHead(data, 65536), 0, 0})
				}
			}()
			f()
		}()
		a1, t1 := allocBytes(), threadCPU()
		if a1-a0 > budgetAlloc {
			emit(c09Result{rank, "memory", name, call, fmt.Sprintf("allocated %d bytes for a %d-byte input (budget 1 MiB + 8192 x input = %d)", a1-a0, len(data), budgetAlloc), len(data), hexHead(data, 65536), a1 - a0, 0})
		}
		if t1-t0 > budgetCPU {
			emit(c09Result{rank, "time", name, call, fmt.Sprintf("used %v of CPU for a %d-byte input (budget 2 s + 50 us x input = %v)", t1-t0, len(data), budgetCPU), len(data), hexHead(data, 65536), 0, (t1 - t0).Milliseconds()})
		}
	}
	if raw {
		guard("icc.ReadProfile+Description", func() {
			p, err := icc.NewProfileReader(bytes.NewReader(data)).ReadProfile()
			if err == nil && p != nil {
				_, _ = p.Description()
			}
		})
		guard("icc.ReadProfile+Description (bufio)", func() {
			p, err := icc.NewProfileReader(bufio.NewReader(bytes.NewReader(data))).ReadProfile()
			if err == nil && p != nil {
				_, _ = p.Description()
			}
		})
		return
	}
	for li := range loaders {
		l := &loaders[li]
		guard(l.Name+".Load+ICCProfile+Description", func() {
			md, _, _ := l.Load(bytes.NewReader(data))
			if md != nil {
				_, _ = md.ICCProfileData()
				p, err := md.ICCProfile()
				if err == nil && p != nil {
					_, _ = p.Description()
				}
			}
		})
	}
}

// c09Worker: vcheck worker c09 <tier> <shard> <nshards> <start> <statusfile>
func c09Worker(args []string) {
	tier := args[0]
	shard, _ := strconv.Atoi(args[1])
	nshards, _ := strconv.Atoi(args[2])
	start, _ := strconv.Atoi(args[3])
	status, _ := os.OpenFile(args[4], os.O_RDWR|os.O_CREATE, 0o644)
	runtime.LockOSThread()
	fams, total := c09Space(tier)
	out := bufio.NewWriter(os.Stdout)
	defer out.Flush()
	emit := func(res c09Result) {
		b, _ := json.Marshal(res)
		fmt.Fprintf(out, "V %s\n", b)
		out.Flush()
	}
	var evals int64
	var st [8]byte
	deadline := time.Now().Add(time.Duration(envInt("VERIF_C09_WORKER_S", 3600)) * time.Second)
	rank := 0
	capped := false
	for fi := range fams {
		f := &fams[fi]
		for i := 0; i < f.Count; i++ {
			if rank >= start && rank%nshards == shard {
				binary.LittleEndian.PutUint64(st[:], uint64(rank))
				status.WriteAt(st[:], 0)
				name, data, raw := f.Make(i)
				c09Run(rank, name, data, raw, emit)
				evals++
				if evals%4096 == 0 && time.Now().After(deadline) {
					capped = true
				}
			}
			rank++
			if capped {
				break
			}
		}
		if capped {
			break
		}
	}
	_ = total
	fmt.Fprintf(out, "DONE %d %v %d\n", evals, capped, rank)
}

func envInt(k string, d int) int {
	if v, err := strconv.Atoi(os.Getenv(k)); err == nil {
		return v
	}
	return d
}

// ---- parent -----------------------------------------------------------------

// C09: hostile input cannot crash the caller, hang, or balloon memory.
func C09(tier string) {
	r := ev.Begin("C09", tier, "exploration")
	r.NotExhaustive()
	fams, total := c09Space(tier)
	r.Rule(fmt.Sprintf("deviation-bounded exhaustive mutation of %d seeds (each format variant, with real ICC v2/v4 profiles embedded in each container, and bare profiles): (a) EVERY 32-bit big-endian window (plus little-endian for WebP, 16-bit for JPEG) at every offset x %d boundary values (0,1,8,9,12,...,2^31-1,2^31,2^32-1, field+/-1, field+/-12, input length, bytes remaining, 2^32-field); all pairs of annotated length/count/offset fields of the bare profiles (thorough: of every seed); (b) every single-byte substitution (255 values x every position); (c) every truncation; (d) crafted legal-but-amplifying shapes (shared mluc strings, deflate bombs, many tags/segments/chunks) at 3-4 scales; each through 4 loaders + ICCProfile + Description (bare profiles: ReadProfile + Description, direct and behind bufio); %d cases in %d families; distinct = cases (each is a distinct byte string by construction except substitutions equal to a boundary value)", len(c09Seeds()), len(c09Values)+7, total, len(fams)))
	r.Assume("memory: Go heap bytes allocated during the call (runtime/metrics /gc/heap/allocs:bytes, cumulative, GC-independent) <= 1 MiB + 8192 x input length; time: CPU time of the calling OS thread <= 2 s + 50 us x input length (three orders of magnitude above normal cost) with a 60 s wall-clock watchdog for true hangs (a worker is restarted after a crash or hang at most twice, then its share is reported as not covered); cases run in worker processes under ulimit -v 6 GiB, a worker that dies or stalls is a violation for its in-flight case")
	r.Assume("coverage-guided fuzzing and seeded random mutation (clauses b and d of the quantifier) are sampling and are replaced by the exhaustive 1- and 2-deviation mutation above")

	nw := ev.Workers()
	work := filepath.Join(ev.Root(), ".work", fmt.Sprintf("c09-%d", os.Getpid()))
	_ = os.MkdirAll(work, 0o755)
	ev.AtExit(func() { os.RemoveAll(work) })
	var mu sync.Mutex
	var evals int64
	report := func(res c09Result) {
		key := res.Kind + "/" + res.Call
		// group by mutation family so that different defects get different keys
		fam := res.Name
		if i := strings.Index(fam, ":"); i > 0 {
			fam = fam[:i]
		}
		r.Violate(key+"/"+fam, fmt.Sprintf("%s on [%s]: %s", res.Call, res.Name, res.Desc), res, nil)
	}
	var wg sync.WaitGroup
	for w := 0; w < nw; w++ {
		wg.Add(1)
		go func(w int) {
			defer wg.Done()
			start := 0
			statusPath := filepath.Join(work, fmt.Sprintf("status-%d", w))
			for attempt := 0; attempt < 3; attempt++ {
				cmd := exec.Command("sh", "-c", fmt.Sprintf("ulimit -v 6291456; exec %s worker c09 %s %d %d %d %s", os.Args[0], tier, w, nw, start, statusPath))
				cmd.Env = os.Environ()
				stdout, _ := cmd.StdoutPipe()
				var stderr bytes.Buffer
				cmd.Stderr = &stderr
				if err := cmd.Start(); err != nil {
					r.Violate("harness/worker-start", err.Error(), nil, nil)
					return
				}
				done := make(chan bool, 1)
				finished := false
				var wevals int64
				go func() {
					sc := bufio.NewScanner(stdout)
					sc.Buffer(make([]byte, 1<<20), 1<<22)
					for sc.Scan() {
						line := sc.Text()
						if strings.HasPrefix(line, "V ") {
							var res c09Result
							if json.Unmarshal([]byte(line[2:]), &res) == nil {
								report(res)
							}
						} else if strings.HasPrefix(line, "DONE ") {
							var capped bool
							var last int
							fmt.Sscanf(line, "DONE %d %v %d", &wevals, &capped, &last)
							if capped {
								r.Cap(fmt.Sprintf("worker %d time budget at rank %d of %d", w, last, total))
							}
							finished = true
						}
					}
					done <- true
				}()
				// watchdog on the status file
				lastRank, lastChange := int64(-1), time.Now()
				hung := false
			wait:
				for {
					select {
					case <-done:
						break wait
					case <-time.After(2 * time.Second):
						b, err := os.ReadFile(statusPath)
						if err == nil && len(b) >= 8 {
							rk := int64(binary.LittleEndian.Uint64(b))
							if rk != lastRank {
								lastRank, lastChange = rk, time.Now()
							} else if time.Since(lastChange) > 60*time.Second {
								hung = true
								_ = cmd.Process.Kill()
							}
						}
					}
				}
				_ = cmd.Wait()
				mu.Lock()
				evals += wevals
				mu.Unlock()
				if finished {
					return
				}
				// the worker died: its in-flight case is the violation
				rk := 0
				if b, err := os.ReadFile(statusPath); err == nil && len(b) >= 8 {
					rk = int(binary.LittleEndian.Uint64(b))
				}
				name, data := c09CaseByRank(fams, rk)
				kind := "crash"
				why := "the process running the call died: " + tail(stderr.Bytes(), 300)
				if hung {
					kind, why = "hang", "no progress for 60 s; the process was killed"
				}
				report(c09Result{rk, kind, name, "worker", why, len(data), hexHead(data, 65536), 0, 0})
				start = rk + 1
				if attempt == 2 {
					r.Cap(fmt.Sprintf("worker %d stopped after 3 crashes/hangs at rank %d of %d", w, rk, total))
				}
			}
		}(w)
	}
	wg.Wait()
	// operation sequences (same process, state carried over): no call may hang or panic
	sdepth := 4
	if tier == "thorough" {
		sdepth = 5
	}
	iccSequences(r, sdepth, "sequence", false, true)
	r.Eval(evals)
	r.DistinctN(evals)
	r.Set("case_space", total)
	famc := map[string]int{}
	for _, f := range fams {
		k := f.Name
		if i := strings.Index(k, "/"); i > 0 {
			k = k[:i]
		}
		famc[k] += f.Count
	}
	r.Set("cases_by_family", famc)
	for _, rk := range []int{0, total / 3, total - 1} {
		name, data := c09CaseByRank(fams, rk)
		r.Sample(map[string]interface{}{"rank": rk, "case": name, "len": len(data), "data_hex_first_64": hexHead(data, 64)})
	}
	if tier == "thorough" {
		// configuration: 32-bit platform (the quick tier of this check, built for GOARCH=386)
		subRunArch(r, "C09", "386")
	}
	r.Finish()
}

func c09CaseByRank(fams []c09Family, rank int) (string, []byte) {
	for fi := range fams {
		if rank < fams[fi].Count {
			n, d, _ := fams[fi].Make(rank)
			return n, d
		}
		rank -= fams[fi].Count
	}
	return "?", nil
}
