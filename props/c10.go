package props

import (
	"fmt"
	"image"
	"image/color"
	"image/draw"
	"os"
	"os/exec"
	"strconv"
	"strings"
	"sync/atomic"

	"github.com/mandykoh/prism/adobergb"
	"github.com/mandykoh/prism/displayp3"
	"github.com/mandykoh/prism/linear"
	"github.com/mandykoh/prism/prophotorgb"
	"github.com/mandykoh/prism/srgb"

	"verif/engine/ev"
)

type imgTransform struct {
	name  string
	apply func(dst draw.Image, src image.Image, par int)
	f     func(color.Color) color.RGBA64
}

func rotColor(c color.Color) color.RGBA64 {
	r, g, b, a := c.RGBA()
	if a == 0 {
		// a transform need not map transparent to zero
		return color.RGBA64{R: 0x1234, G: 0x5678, B: 0x9abc, A: 0xdef0}
	}
	return color.RGBA64{R: uint16(g), G: uint16(b), B: uint16(r), A: uint16(a)}
}

var imgTransforms = []imgTransform{
	{"srgb.LineariseImage", srgb.LineariseImage, srgb.LineariseColor},
	{"srgb.EncodeImage", srgb.EncodeImage, srgb.EncodeColor},
	{"adobergb.LineariseImage", adobergb.LineariseImage, adobergb.LineariseColor},
	{"adobergb.EncodeImage", adobergb.EncodeImage, adobergb.EncodeColor},
	{"prophotorgb.LineariseImage", prophotorgb.LineariseImage, prophotorgb.LineariseColor},
	{"prophotorgb.EncodeImage", prophotorgb.EncodeImage, prophotorgb.EncodeColor},
	{"displayp3.LineariseImage", displayp3.LineariseImage, displayp3.LineariseColor},
	{"displayp3.EncodeImage", displayp3.EncodeImage, displayp3.EncodeColor},
	{"linear.TransformImageColor(rotate)", func(d draw.Image, s image.Image, p int) { linear.TransformImageColor(d, s, p, rotColor) }, rotColor},
	{"linear.TransformImageColor(additive)", func(d draw.Image, s image.Image, p int) { linear.TransformImageColor(d, s, p, additiveColor) }, additiveColor},
}

// additiveColor is a legal transform result that is not a valid premultiplied
// colour for every pixel: alpha 0 with colour left in place ("additive"
// pixels), alpha below the colour components, and ordinary values. What the
// destination stores for such a value is whatever its own Set does.
func additiveColor(c color.Color) color.RGBA64 {
	r, g, b, a := c.RGBA()
	switch (r + 3*g + 5*b) % 4 {
	case 0:
		return color.RGBA64{R: uint16(r) | 0x0101, G: uint16(g), B: uint16(b) | 0x8000, A: 0}
	case 1:
		return color.RGBA64{R: uint16(r) | 0x4000, G: uint16(g), B: uint16(b), A: uint16(a) / 4}
	}
	return color.RGBA64{R: uint16(b), G: uint16(r), B: uint16(g), A: uint16(a)}
}

type imgShape struct {
	src       image.Rectangle
	srcMargin int
	dstMin    image.Point
	dstExtra  image.Point
	dstMargin int
}

func (s imgShape) String() string {
	return fmt.Sprintf("src %v (parent margin %d) -> dst origin %v, %dx%d larger, parent margin %d", s.src, s.srcMargin, s.dstMin, s.dstExtra.X, s.dstExtra.Y, s.dstMargin)
}

func c10Shapes(tier string) []imgShape {
	rect := func(x, y, w, h int) image.Rectangle { return image.Rect(x, y, x+w, y+h) }
	var out []imgShape
	sizes := [][2]int{{3, 2}, {1, 4}, {4, 1}, {0, 0}, {5, 4}, {2, 7}, {2, 131}}
	if tier == "thorough" {
		sizes = append(sizes, [2]int{17, 9}, [2]int{8, 33}, [2]int{1, 1}, [2]int{0, 3}, [2]int{16, 16})
	}
	for _, sz := range sizes {
		for _, so := range []image.Point{{0, 0}, {-2, -3}, {5, 7}} {
			for _, do := range []image.Point{{0, 0}, {-4, -1}, {3, 6}} {
				for _, ex := range []image.Point{{0, 0}, {2, 1}} {
					for _, sm := range []int{0, 2} {
						for _, dm := range []int{0, 1} {
							out = append(out, imgShape{rect(so.X, so.Y, sz[0], sz[1]), sm, do, ex, dm})
						}
					}
				}
			}
		}
	}
	return out
}

var c10SrcKinds = []string{"RGBA64", "NRGBA64", "RGBA", "NRGBA", "YCbCr444", "YCbCr422", "YCbCr420", "YCbCr440", "YCbCr411", "YCbCr410", "Gray", "Gray16", "CMYK", "Paletted", "Opaque"}
var c10DstKinds = []string{"RGBA64", "RGBA", "NRGBA", "NRGBA64", "OpaqueDst"}

func newDst(kind string, r image.Rectangle, margin, seed int) (draw.Image, func() [][]uint8) {
	k := kind
	if kind == "OpaqueDst" {
		k = "NRGBA64"
	}
	img, planes := newImage(k, r, margin, seed)
	d := img.(draw.Image)
	if kind == "OpaqueDst" {
		d = opaqueDst{d}
	}
	return d, planes
}

type c10Case struct {
	Transform, Src, Dst string
	Shape               string
	Parallelism         int
	InPlace             bool
}

// C10: image linearise/encode is the per-pixel function, everywhere and only there.
// c10FirstUse is the body of a child process whose very first call into the
// library is one parallel image transform: lazily built tables are then first
// touched by the library's own workers. Exit 3 and a line on stdout on mismatch.
func c10FirstUse(k int) {
	tr := &imgTransforms[k%len(imgTransforms)]
	rect := image.Rect(0, 0, 64, 48)
	src, _ := newImage("RGBA64", rect, 0, 3)
	dst := image.NewRGBA64(rect)
	tr.apply(dst, src, 16)
	for y := 0; y < 48; y++ {
		for x := 0; x < 64; x++ {
			if got, want := dst.RGBA64At(x, y), tr.f(src.At(x, y)); got != want {
				fmt.Printf("FIRSTUSE-MISMATCH %s pixel (%d,%d): got %v, per-pixel function gives %v\n", tr.name, x, y, got, want)
				os.Exit(3)
			}
		}
	}
	os.Exit(0)
}

func C10(tier string) {
	if s := os.Getenv("VERIF_C10_FIRST"); s != "" {
		k, _ := strconv.Atoi(s)
		c10FirstUse(k)
	}
	crashGuard("C10", tier, "exploration")
	r := ev.Begin("C10", tier, "exploration")
	// configuration "first call of the process": each transform as the very first
	// library call of a fresh process, 64x48 pixels with 16 workers, three times
	for k := range imgTransforms {
		for rep := 0; rep < 3; rep++ {
			cmd := exec.Command(os.Args[0], "C10", tier)
			cmd.Env = append(os.Environ(), fmt.Sprintf("VERIF_C10_FIRST=%d", k))
			out, err := cmd.Output()
			r.Eval(1)
			if err != nil {
				r.Violate("first-call-of-the-process/"+imgTransforms[k].name, fmt.Sprintf("%s with parallelism 16 as the first library call of a process: %v %s", imgTransforms[k].name, err, tail(out, 300)), nil, nil)
				break
			}
		}
	}
	shapes := c10Shapes(tier)
	r.Rule(fmt.Sprintf("complete product: %d source types x %d destination types x %d bounds shapes (origins negative/zero/positive for source and destination independently, empty, 1xN, Nx1, destination larger than source, source and destination as sub-images of larger parents) x parallelism {1,2,3,4,5,7,11,13,16,64,rows+5} x %d transforms, plus in-place runs where types match, each also on neighbour-dependent data (pixel x+1 = what the transform makes of pixel x, or a copy of it, or fresh); each transform as the first library call of a fresh process (64x48, parallelism 16, three processes each); plus a 130x110 image (14,300 pixels) for every type pair at three origin combinations x parallelism {1,2,4,13}; every byte of the destination parent's backing array is compared; distinct = configurations with a non-empty source", len(c10SrcKinds), len(c10DstKinds), len(shapes), len(imgTransforms)))
	r.Assume("expected image = destination's own Set(dst.Min + p - src.Min, f(src.At(p))) over a byte-identical copy, i.e. the destination colour model's conversion as implemented by the standard library")

	type job struct {
		ti, si, di, shi int
	}
	var jobs []job
	for ti := range imgTransforms {
		for si := range c10SrcKinds {
			for di := range c10DstKinds {
				for shi := range shapes {
					jobs = append(jobs, job{ti, si, di, shi})
				}
			}
		}
	}
	var skipped atomic.Int64
	r.Par(ev.Workers(), func(shard, n int) {
		var evals, distinct int64
		for ji := shard; ji < len(jobs); ji += n {
			j := jobs[ji]
			tr, sk, dk, sh := &imgTransforms[j.ti], c10SrcKinds[j.si], c10DstKinds[j.di], shapes[j.shi]
			rows := sh.src.Dy()
			if strings.HasPrefix(sk, "YCbCr") && sk != "YCbCr444" && (sh.src.Min.X-sh.srcMargin < 0 || sh.src.Min.Y-sh.srcMargin < 0) {
				// image.YCbCr's chroma offset uses truncating division, so the
				// standard library itself mis-indexes (and panics) for
				// subsampled images with negative coordinates: not a usable fixture
				skipped.Add(1)
				continue
			}
			for _, par := range []int{1, 2, 3, 4, 5, 7, 11, 13, 16, 64, rows + 5} {
				c10One(r, tr, sk, dk, sh, par, false)
				evals++
				if !sh.src.Empty() {
					distinct++
				}
				inplaceOK := (sk == dk && sk != "OpaqueDst") && sh.dstMin == sh.src.Min && sh.dstExtra == (image.Point{}) && sh.dstMargin == sh.srcMargin
				if inplaceOK {
					c10One(r, tr, sk, dk, sh, par, true)
					c10OneData(r, tr, sk, dk, sh, par, true, true)
					evals += 2
					if !sh.src.Empty() {
						distinct += 2
					}
				}
				if sk == dk && (par == 1 || par == 3) {
					c10OneData(r, tr, sk, dk, sh, par, false, true)
					evals++
				}
			}
			if ji%4096 == 0 && (r.OutOfTime() || r.NViolations() > 30) {
				if r.OutOfTime() {
					r.Cap("time budget")
				}
				break
			}
		}
		r.Eval(evals)
		r.DistinctN(distinct)
	})
	// images above any plausible "small image" threshold, non-zero origins
	{
		type bj struct{ ti, si, di, oi int }
		origins := [][2]image.Point{{image.Pt(0, 0), image.Pt(0, 0)}, {image.Pt(7, 40), image.Pt(3, 9)}, {image.Pt(-7, -40), image.Pt(3, 9)}}
		var bjobs []bj
		for si := range c10SrcKinds {
			for di := range c10DstKinds {
				for oi := range origins {
					bjobs = append(bjobs, bj{(si + di + oi) % len(imgTransforms), si, di, oi})
				}
			}
		}
		r.Par(ev.Workers(), func(shard, n int) {
			var evals int64
			for ji := shard; ji < len(bjobs); ji += n {
				j := bjobs[ji]
				sk := c10SrcKinds[j.si]
				o := origins[j.oi]
				if strings.HasPrefix(sk, "YCbCr") && sk != "YCbCr444" && (o[0].X < 0 || o[0].Y < 0) {
					continue
				}
				sh := imgShape{src: image.Rect(o[0].X, o[0].Y, o[0].X+130, o[0].Y+110), dstMin: o[1], dstExtra: image.Pt(j.oi, 0)}
				for _, par := range []int{1, 2, 4, 13} {
					c10One(r, &imgTransforms[j.ti], sk, c10DstKinds[j.di], sh, par, false)
					evals++
				}
			}
			r.Eval(evals)
			r.DistinctN(evals)
		})
	}
	r.Set("skipped_subsampled_ycbcr_with_negative_origin", skipped.Load())
	r.Sample(c10Case{imgTransforms[0].name, "YCbCr420", "RGBA", shapes[7].String(), 3, false})
	r.Sample(c10Case{imgTransforms[8].name, "RGBA64", "RGBA64", shapes[5].String(), 7, true})
	r.Finish()
}

func c10One(r *ev.Run, tr *imgTransform, sk, dk string, sh imgShape, par int, inPlace bool) {
	c10OneData(r, tr, sk, dk, sh, par, inPlace, false)
}

// c10Chain rewrites the pixels of a row so that they depend on their left
// neighbour through the transform under test: pixel x+1 holds, cyclically, a
// fresh value, exactly what the transform makes of pixel x (as stored by the
// image's own Set), or a copy of pixel x. An in-place implementation that
// looks at a neighbour it has already overwritten, or a run/cache keyed on the
// previous pixel, is wrong on such rows and right on unrelated data.
func c10Chain(img draw.Image, b image.Rectangle, f func(color.Color) color.RGBA64) {
	for y := b.Min.Y; y < b.Max.Y; y++ {
		for x := b.Min.X + 1; x < b.Max.X; x++ {
			switch (x + y) % 3 {
			case 1:
				img.Set(x, y, f(img.At(x-1, y)))
			case 2:
				img.Set(x, y, img.At(x-1, y))
			}
		}
	}
}

func c10OneData(r *ev.Run, tr *imgTransform, sk, dk string, sh imgShape, par int, inPlace, chain bool) {
	cs := c10Case{tr.name, sk, dk, sh.String(), par, inPlace}
	key := fmt.Sprintf("%s/%s->%s", tr.name, sk, dk)
	if inPlace {
		key += "/in-place"
	}
	if chain {
		key += "/neighbour-dependent-data"
	}
	src, srcPlanes := newImage(sk, sh.src, sh.srcMargin, 1)
	srcCopy, _ := newImage(sk, sh.src, sh.srcMargin, 1)
	if chain {
		sd, ok1 := src.(draw.Image)
		cd, ok2 := srcCopy.(draw.Image)
		if !ok1 || !ok2 {
			return
		}
		c10Chain(sd, sh.src, tr.f)
		c10Chain(cd, sh.src, tr.f)
	}
	dstRect := image.Rectangle{Min: sh.dstMin, Max: sh.dstMin.Add(sh.src.Size()).Add(sh.dstExtra)}
	var dst, exp draw.Image
	var dstPlanes, expPlanes func() [][]uint8
	if inPlace {
		dst, dstPlanes = src.(draw.Image), srcPlanes
		exp, expPlanes = newDst(dk, dstRect, sh.dstMargin, 1)
	} else {
		dst, dstPlanes = newDst(dk, dstRect, sh.dstMargin, 2)
		exp, expPlanes = newDst(dk, dstRect, sh.dstMargin, 2)
	}
	srcBefore := snapshot(srcPlanes())

	off := dstRect.Min.Sub(sh.src.Min)
	b := sh.src
	for y := b.Min.Y; y < b.Max.Y; y++ {
		for x := b.Min.X; x < b.Max.X; x++ {
			exp.Set(x+off.X, y+off.Y, tr.f(srcCopy.At(x, y)))
		}
	}

	panicked := true
	func() {
		defer func() {
			if p := recover(); p != nil {
				r.Violate(key+"/panic", fmt.Sprintf("%s panicked: %v [%+v]", tr.name, p, cs), cs, nil)
			}
		}()
		tr.apply(dst, src, par)
		panicked = false
	}()
	if panicked {
		return
	}
	if ok, _, at := planesEqual(dstPlanes(), expPlanes()); !ok {
		stride := 0
		switch d := exp.(type) {
		case *image.RGBA64:
			stride = d.Stride
		case *image.RGBA:
			stride = d.Stride
		case *image.NRGBA:
			stride = d.Stride
		case *image.NRGBA64:
			stride = d.Stride
		}
		where := fmt.Sprintf("byte %d of the parent backing array", at)
		if stride > 0 {
			where += fmt.Sprintf(" (parent row %d, byte %d in row)", at/stride, at%stride)
		}
		r.Violate(key, fmt.Sprintf("%s: destination differs from the per-pixel definition at %s: got %d want %d [%+v]", tr.name, where, dstPlanes()[0][at], expPlanes()[0][at], cs), cs,
			nil)
	}
	if !inPlace {
		if ok, pl, at := planesEqual(srcPlanes(), srcBefore); !ok {
			r.Violate(key+"/source-modified", fmt.Sprintf("%s modified its source (plane %d byte %d) [%+v]", tr.name, pl, at, cs), cs, nil)
		}
	}
}
