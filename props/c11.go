package props

import (
	"bytes"
	"context"
	"encoding/json"
	"fmt"
	"os"
	"os/exec"
	"path/filepath"
	"strings"
	"sync"
	"time"

	"verif/engine/ev"
	"verif/engine/xsched/instr"
)

type c11Report struct {
	Scenario     string  `json:"scenario"`
	Threads      int     `json:"threads"`
	Bound        int     `json:"preemption_bound"`
	Executions   int64   `json:"executions"`
	States       int64   `json:"decision_points"`
	Transitions  int64   `json:"thread_switches"`
	SyncOps      int64   `json:"sync_ops"`
	MemOps       int64   `json:"mem_ops"`
	MaxDecisions int     `json:"max_decisions_in_one_execution"`
	Outcomes     int     `json:"distinct_outcomes"`
	Schedules    int     `json:"distinct_schedules"`
	Exhaustive   bool    `json:"exhaustive_within_bound"`
	All          bool    `json:"all_interleavings"`
	MinBound     int     `json:"requested_bound"`
	HBStates     int     `json:"distinct_happens_before_states"`
	Pruned       int64   `json:"subtrees_pruned_as_already_visited"`
	Sample       string  `json:"sample_schedule"`
	WallS        float64 `json:"wall_s"`
	Violations   []struct {
		Kind     string   `json:"kind"`
		Desc     string   `json:"desc"`
		Choices  []int    `json:"choices"`
		Schedule string   `json:"schedule"`
		Stable   bool     `json:"reproduced_5x"`
		Got      []string `json:"got"`
		Want     []string `json:"want"`
	} `json:"violations"`
}

func goEnv() []string {
	return append(os.Environ(), "GOFLAGS=-mod=mod", "GOPROXY=off", "GOSUMDB=off", "GOTOOLCHAIN=local")
}

// C11: all conversions are safe for concurrent use, including the very first use.
func C11(tier string) {
	r := ev.Begin("C11", tier, "model_checking")
	r.NotExhaustive()
	repo := ev.Repo()
	work := filepath.Join(ev.Root(), ".work", fmt.Sprintf("c11-%d", os.Getpid()))
	_ = os.MkdirAll(work, 0o755)
	ev.AtExit(func() { os.RemoveAll(work) })

	overlay, st, err := instr.Generate(repo, work, filepath.Join(ev.Root(), "engine", "xsched"))
	if err != nil {
		r.Violate("harness/instrumentation", "the overlay instrumenter failed on the current tree: "+err.Error(), nil, nil)
		r.Finish()
	}
	r.Set("instrumentation", st)

	build := func(out string, race bool) error {
		args := []string{"build", "-overlay", overlay, "-o", out}
		if race {
			args = append(args, "-race")
		}
		args = append(args, "github.com/mandykoh/prism/zverif/harness")
		cmd := exec.Command("go", args...)
		cmd.Dir = repo
		cmd.Env = goEnv()
		if b, err := cmd.CombinedOutput(); err != nil {
			return fmt.Errorf("%v\n%s", err, tail(b, 3000))
		}
		return nil
	}
	bin, binRace := filepath.Join(work, "harness"), filepath.Join(work, "harness-race")
	var berr, berrRace error
	var bw sync.WaitGroup
	bw.Add(2)
	go func() { defer bw.Done(); berr = build(bin, false) }()
	go func() { defer bw.Done(); berrRace = build(binRace, true) }()
	bw.Wait()
	if berr != nil {
		r.Violate("harness/build", "the instrumented tree does not build: "+berr.Error(), nil, nil)
		r.Finish()
	}
	if berrRace != nil {
		r.Violate("harness/build-race", "the -race cross-check binary does not build: "+berrRace.Error(), nil, nil)
		r.Finish()
	}

	// the explorer is first run on litmus programs with known verdicts, with and
	// without state caching; a wrong verdict there disqualifies the whole check
	{
		sctx, scancel := context.WithTimeout(context.Background(), 20*time.Minute)
		stc := exec.CommandContext(sctx, bin, "selftest")
		stc.Env = append(os.Environ(), "GOMAXPROCS=2")
		so, serr := stc.Output()
		if sctx.Err() != nil {
			serr = fmt.Errorf("not finished after 20 minutes")
		}
		scancel()
		var st []map[string]interface{}
		lines := strings.Split(strings.TrimSpace(string(so)), "\n")
		if json.Unmarshal([]byte(lines[len(lines)-1]), &st) != nil || len(st) == 0 {
			r.Violate("harness/selftest", fmt.Sprintf("the explorer self-test did not produce a report: %v %s", serr, tail(so, 600)), nil, nil)
			r.Finish()
		}
		r.Set("explorer_selftest", st)
		for _, l := range st {
			if ok, _ := l["ok"].(bool); !ok {
				r.Violate(fmt.Sprintf("harness/selftest/%v", l["name"]), fmt.Sprintf("the explorer gives the wrong verdict on the litmus program %q (want %q, got %q / %q without caching; %v): its reports on prism cannot be trusted", l["name"], l["want"], l["got"], l["got_without_state_caching"], l["why"]), l, nil)
			}
		}
		if r.NViolations() > 0 {
			r.Finish()
		}
		r.Eval(int64(len(st)))
	}

	lst, err := exec.Command(bin, "list").Output()
	if err != nil {
		r.Violate("harness/list", err.Error(), nil, nil)
		r.Finish()
	}
	type scen struct {
		threads int
		name    string
	}
	var scens []scen
	for _, l := range strings.Split(strings.TrimSpace(string(lst)), "\n") {
		var n int
		var name string
		parts := strings.SplitN(l, "\t", 2)
		fmt.Sscanf(parts[0], "%d", &n)
		name = parts[1]
		scens = append(scens, scen{n, name})
	}
	// guaranteed preemption bound per scenario (the pass at this bound always
	// completes); deeper bounds are explored while the per-scenario budget lasts
	deep := 2
	budget := 10
	if tier == "thorough" {
		deep, budget = 4, 600
	}
	boundFor := func(s scen) int {
		for _, k := range []string{"first From16Bit x2", "first To16Bit x2", "first From16Bit vs To16Bit", "ciexyz/"} {
			if strings.Contains(s.name, k) {
				return 99 // all interleavings
			}
		}
		if strings.Contains(s.name, "LineariseColor vs EncodeColor") || strings.HasPrefix(s.name, "srgb+displayp3/") {
			return deep + 1
		}
		if strings.Contains(s.name, "parallelism 11") {
			return 0 // 11 workers: 2,000+ states without any preemption
		}
		if s.threads >= 4 || strings.Contains(s.name, "parallelism 5") || strings.Contains(s.name, "x3 png jpeg webp") {
			return deep - 1
		}
		return deep
	}
	r.Rule(fmt.Sprintf("%d scenarios on the overlay-instrumented real code, fresh package state per execution: first-use races of the lazily built 16-bit tables (2 and 3 goroutines, 1-2 calls each, per space and across srgb/displayp3), image transforms and prism.ConvertImageTo* with parallelism 2 and 3 on 3x2 images down every destination path (tables first touched inside the workers), two image transforms at once, two concurrent Loads per loader, concurrent adaptations, one meta.Data / one icc.Profile / one source image shared by two goroutines, 8-bit and 16-bit entry points meeting at first use; iterative context bounding with happens-before state caching (a state = the multiset of per-goroutine history hashes, each history folding in the history of every write it read or overwrote and every release it acquired; a state reached again with no fewer preemptions used is not expanded again); 2-goroutine single-call first-use scenarios: ALL interleavings of hooked operations guaranteed; the others: all schedules with <= %d preemptions guaranteed (one more for the two-call colour scenarios, one or two fewer for 4 goroutines and parallelism 5/11), then one more preemption at a time while the per-scenario budget lasts, ending early when a pass was never limited by the bound (= all interleavings); the bound completed per scenario is in coverage.scenarios; the explorer first has to give the known verdict on 23 litmus programs (racy and locked counters, broken double-checked locking, Once with 2 and 3 goroutines, lock-order inversion with a 1-preemption counterexample, WaitGroup hand-over, unsynchronised flag, atomic publication, spin-wait on an atomic flag, atomic flag claimed too early, atomic against plain access, channel hand-over, channel semaphore, close and range, a completion token taken by the wrong caller, a receive nobody answers, a condition variable used correctly and with a single unchecked Wait, a sync.Map entry stored complete and stored empty, pooled-buffer aliasing), with and without state caching; every execution is checked by a vector-clock happens-before race detector (edges: go, Once, WaitGroup, Mutex) and against each call's value when executed alone; plus a free-running go build -race pass of the same scenario bodies of four larger image workloads (100x120, more than 20,000 table look-ups) and of 16 and 64 goroutines released together at first use across all spaces under GOMAXPROCS 16, 4 and 1 (40 fresh-state trials each), which are too big to explore; states = scheduling decision points, transitions = thread switches taken, traces = executions", len(scens), deep))
	r.Assume("interleavings are sequentially consistent; weak-memory behaviours are covered through the race oracle (race-free programs have only SC executions); consecutive same-kind accesses by one goroutine to the same 8-byte cell are one scheduling step; hooked memory = package-level variables written outside init, captured locals, pixel planes, elements of element-assigned slices, and plain fields of structs that carry a sync or sync/atomic object; other heap objects reached through pointers, and code outside the instrumented packages, are covered only by the free-running -race pass")

	runFree := func(name string) {
		// free-running race detector pass
		iters := 20
		if strings.HasPrefix(name, "image/") || strings.HasPrefix(name, "meta/") {
			iters = 200
		}
		t0 := time.Now()
		fctx, fcancel := context.WithTimeout(context.Background(), 15*time.Minute)
		fc := exec.CommandContext(fctx, binRace, "free", name, fmt.Sprint(iters))
		fc.Env = append(os.Environ(), "GORACE=halt_on_error=1")
		fo, ferr := fc.CombinedOutput()
		hung := fctx.Err() != nil
		fcancel()
		_ = t0
		if hung {
			r.Violate("free-hang/"+name, fmt.Sprintf("free-running scenario %q (no scheduler, plain goroutines, %d repetitions of calls that take milliseconds) did not return within 15 minutes: a call blocks forever", name, iters), map[string]interface{}{"scenario": name, "output": tail(fo, 1500)}, nil)
			return
		}
		if bytes.Contains(fo, []byte("DATA RACE")) {
			r.Violate("go-race/"+name, fmt.Sprintf("go's race detector on the free-running scenario %q: %s", name, firstRace(fo)), map[string]interface{}{"scenario": name, "output": tail(fo, 2500)}, nil)
		} else if bytes.Contains(fo, []byte("VALUE-MISMATCH")) {
			r.Violate("free-value/"+name, fmt.Sprintf("free-running scenario %q: %s", name, tail(fo, 400)), nil, nil)
		} else if ferr != nil {
			r.Violate("free-crash/"+name, fmt.Sprintf("free-running scenario %q failed: %v %s", name, ferr, tail(fo, 800)), nil, nil)
		}
	}
	if len(st.Channels) > 0 {
		r.Cap(fmt.Sprintf("the tree uses channel operations, sync.Cond or sync.Map (%s ...), which the controlled scheduler does not model: interleaving exploration skipped, free-running -race pass only", st.Channels[0]))
	}
	var mu sync.Mutex
	var reports []c11Report
	sem := make(chan bool, ev.Workers())
	var wg sync.WaitGroup
	for _, s := range scens {
		s := s
		wg.Add(1)
		sem <- true
		go func() {
			defer wg.Done()
			defer func() { <-sem }()
			freeOnly := strings.HasPrefix(s.name, "free/")
			if freeOnly {
				for _, procs := range []string{"16", "4", "1"} {
					iters := "6"
					if strings.Contains(s.name, "goroutines at first use") {
						iters = "40"
					}
					fctx, fcancel := context.WithTimeout(context.Background(), 15*time.Minute)
					fc := exec.CommandContext(fctx, binRace, "free", s.name, iters)
					fc.Env = append(os.Environ(), "GORACE=halt_on_error=1", "GOMAXPROCS="+procs)
					fo, ferr := fc.CombinedOutput()
					hung := fctx.Err() != nil
					fcancel()
					if hung {
						r.Violate("free-hang/"+s.name, fmt.Sprintf("free-running scenario %q (GOMAXPROCS=%s) did not return within 15 minutes: a call blocks forever", s.name, procs), map[string]interface{}{"scenario": s.name, "output": tail(fo, 1500)}, nil)
						break
					}
					if bytes.Contains(fo, []byte("DATA RACE")) {
						r.Violate("go-race/"+s.name, fmt.Sprintf("go's race detector on the free-running scenario %q (GOMAXPROCS=%s): %s", s.name, procs, firstRace(fo)), map[string]interface{}{"scenario": s.name, "output": tail(fo, 2500)}, nil)
					} else if ferr != nil || bytes.Contains(fo, []byte("VALUE-MISMATCH")) {
						r.Violate("free-value/"+s.name, fmt.Sprintf("free-running scenario %q (GOMAXPROCS=%s): %v %s", s.name, procs, ferr, tail(fo, 600)), nil, nil)
					}
					r.Eval(6)
					if !strings.Contains(s.name, "goroutines at first use") {
						break
					}
				}
				return
			}
			if len(st.Channels) > 0 {
				// unmodelled blocking operations: only the free-running pass below
				runFree(s.name)
				return
			}
			// the explorer enforces its own deadlines; the outer limit only catches an
			// explorer that is stuck inside one execution (reported as a cap: the
			// free-running pass below still decides the scenario)
			outer := time.Duration(20*budget+300) * time.Second
			if outer > 1900*time.Second {
				outer = 1900 * time.Second
			}
			ctx, cancel := context.WithTimeout(context.Background(), outer)
			cmd := exec.CommandContext(ctx, bin, "explore", s.name, fmt.Sprint(boundFor(s)), fmt.Sprint(budget))
			cmd.Env = append(os.Environ(), "GOMAXPROCS=2")
			var stderr bytes.Buffer
			cmd.Stderr = &stderr
			out, err := cmd.Output()
			timedOut := ctx.Err() != nil
			cancel()
			if timedOut {
				r.Cap(fmt.Sprintf("the explorer did not finish scenario %q within %v (runaway executions); free-running pass only", s.name, outer))
				runFree(s.name)
				return
			}
			var rep c11Report
			if err != nil || json.Unmarshal(bytes.TrimSpace(out), &rep) != nil {
				r.Violate("harness/explore/"+s.name, fmt.Sprintf("explorer crashed on scenario %q: %v\n%s", s.name, err, tail(stderr.Bytes(), 1500)), nil, nil)
				return
			}
			mu.Lock()
			reports = append(reports, rep)
			mu.Unlock()
			for _, v := range rep.Violations {
				if !v.Stable {
					r.Violate("unstable/"+s.name, "a violation did not reproduce 5x from its schedule (harness nondeterminism): "+v.Desc, v, func() bool { return false })
					continue
				}
				key := v.Kind + "/" + s.name
				r.Violate(key, fmt.Sprintf("scenario %q, schedule %s (choices %v): %s", s.name, v.Schedule, v.Choices, v.Desc),
					map[string]interface{}{"scenario": s.name, "choices": v.Choices, "schedule": v.Schedule, "got": v.Got, "want": v.Want, "replay": fmt.Sprintf("tools/c11dev.sh /tmp/c11 && /tmp/c11/harness replay %q %s", s.name, strings.Trim(strings.ReplaceAll(fmt.Sprint(v.Choices), " ", ","), "[]"))}, nil)
			}
			runFree(s.name)
		}()
	}
	wg.Wait()

	var summary []map[string]interface{}
	allExh := true
	nAll := 0
	for _, rep := range reports {
		r.States(rep.States)
		r.Trans(rep.Transitions)
		r.Traces(rep.Executions)
		r.Eval(rep.Executions)
		r.Distinct(rep.Scenario)
		if !rep.Exhaustive {
			allExh = false
			r.Cap("hard deadline before the guaranteed bound completed in scenario " + rep.Scenario)
		}
		if rep.All {
			nAll++
		}
		summary = append(summary, map[string]interface{}{"scenario": rep.Scenario, "threads": rep.Threads, "preemption_bound_completed": rep.Bound, "preemption_bound_guaranteed": rep.MinBound, "all_interleavings": rep.All, "executions": rep.Executions,
			"distinct_happens_before_states_last_pass": rep.HBStates, "subtrees_pruned_as_already_visited": rep.Pruned,
			"decision_points": rep.States, "distinct_schedules": rep.Schedules, "distinct_outcomes": rep.Outcomes, "complete_within_bound": rep.Exhaustive, "max_decisions_in_one_execution": rep.MaxDecisions})
		if rep.Sample != "" {
			r.Sample(map[string]interface{}{"scenario": rep.Scenario, "schedule": rep.Sample})
		}
	}
	r.Set("scenarios", summary)
	r.Set("all_scenarios_complete_within_bound", allExh)
	r.Set("scenarios_with_all_interleavings_explored", nAll)
	r.Finish()
}

func firstRace(b []byte) string {
	s := string(b)
	i := strings.Index(s, "WARNING: DATA RACE")
	if i < 0 {
		return ""
	}
	s = s[i:]
	lines := strings.Split(s, "\n")
	var keep []string
	for _, l := range lines {
		if strings.Contains(l, ".go:") || strings.HasPrefix(l, "Read") || strings.HasPrefix(l, "Write") || strings.HasPrefix(l, "Previous") {
			keep = append(keep, strings.TrimSpace(l))
		}
		if len(keep) > 7 {
			break
		}
	}
	return strings.Join(keep, " | ")
}
