package props

import (
	"fmt"
	"math"

	"github.com/mandykoh/prism/ciexyy"
	"github.com/mandykoh/prism/ciexyz"
	"github.com/mandykoh/prism/matrix"

	"verif/engine/ev"
	"verif/refs"
)

// m3of converts the package's column-major matrix to the reference row-major form.
func m3of(m matrix.Matrix3) refs.M3 {
	var o refs.M3
	for c := 0; c < 3; c++ {
		for rw := 0; rw < 3; rw++ {
			o[rw][c] = m[c][rw]
		}
	}
	return o
}

func xyzV(c ciexyz.Color) refs.V3 { return refs.V3{float64(c.X), float64(c.Y), float64(c.Z)} }

// xySensitivity bounds how far the reference matrix can move when the two
// whites' XYZ are perturbed by the rounding a float32 xyY->XYZ conversion may
// commit (X, Z relative 2.4e-7, Z additionally 2.4e-7/y absolute because
// 1-x-y cancels): the tolerance for comparing with the exact-chromaticity
// matrix is four times the largest single-component effect.
func xySensitivity(a, b ciexyy.Color, ref refs.M3) float64 {
	A0 := refs.XYZFromXYY(float64(a.X), float64(a.Y), 1)
	B0 := refs.XYZFromXYY(float64(b.X), float64(b.Y), 1)
	worst := 0.0
	for w := 0; w < 2; w++ {
		for comp := 0; comp < 3; comp += 2 {
			for _, sgn := range []float64{-1, 1} {
				A, B := A0, B0
				t, y := &A, float64(a.Y)
				if w == 1 {
					t, y = &B, float64(b.Y)
				}
				d := 2.4e-7 * math.Abs(t[comp])
				if comp == 2 {
					d += 2.4e-7 / y
				}
				t[comp] += sgn * d
				if x := refs.MaxAbsDiff(refs.BradfordAdapt(A, B), ref); x > worst {
					worst = x
				}
			}
		}
	}
	return 4*worst + 1e-9
}

// C12: chromatic adaptation maps white to white and composes consistently.
func C12(tier string) {
	r := ev.Begin("C12", tier, "exploration")
	r.NotExhaustive()
	n := 32
	if tier == "thorough" {
		n = 128
	}
	var whites []ciexyy.Color
	for i := 0; i < n; i++ {
		for j := 0; j < n; j++ {
			whites = append(whites, ciexyy.Color{X: float32(0.2 + 0.3*float64(i)/float64(n-1)), Y: float32(0.2 + 0.3*float64(j)/float64(n-1)), YY: 1})
		}
	}
	nlat := len(whites)
	var named []ciexyy.Color
	for _, il := range refs.Illuminants {
		named = append(named, ciexyy.Color{X: float32(il.XY.X), Y: float32(il.XY.Y), YY: 1})
	}
	named = append(named, ciexyy.D50, ciexyy.D65, ciexyy.Color{X: 0.3127, Y: 0.3290, YY: 1}, ciexyy.Color{X: 0.3457, Y: 0.3585, YY: 1})
	whites = append(whites, named...)
	r.Rule(fmt.Sprintf("white points: %dx%d chromaticity lattice over [0.2,0.5]^2 plus 11 CIE illuminants and the package's D50/D65 (%d whites); all ordered pairs; near-neighbour pairs (offsets +/-1e-6..1e-3 in x and y); all triples over the named whites and an 8x8 sub-lattice; every sequence of up to 3 requests over {A->A, A->B, B->A, B->B} x both constructors; XYZ whites with Y != 1; xyY whites with luminances {0.25,0.5,0.8,1,2,100} on either side (white-to-white, float64 Bradford matrix of the converted whites); Apply on the lattice {-0.5,0,0.5,1,2}^3 and a geometric lattice; distinct = ordered pairs of different whites", n, n, len(whites)))
	r.Assume("reference: linear Bradford adaptation M^-1 diag(dst cone / src cone) M with the published Bradford matrix, float64, Gauss-Jordan inverse")

	bad := func(key, desc string, a, b ciexyy.Color) {
		r.Violate(key, desc, map[string]interface{}{"src_xy": []float32{a.X, a.Y}, "dst_xy": []float32{b.X, b.Y}}, nil)
	}
	checkPair := func(a, b ciexyy.Color) {
		ca := ciexyz.AdaptBetweenXYYWhitePoints(a, b)
		A, B := ciexyz.ColorFromXYY(a), ciexyz.ColorFromXYY(b)
		got := m3of(matrix.Matrix3(ca))
		// xyY -> XYZ of the whites against the float64 conversion
		for _, w := range []struct {
			c ciexyy.Color
			v ciexyz.Color
		}{{a, A}, {b, B}} {
			ref := refs.XYZFromXYY(float64(w.c.X), float64(w.c.Y), float64(w.c.YY))
			g := xyzV(w.v)
			for k := 0; k < 3; k++ {
				if !(math.Abs(g[k]-ref[k]) <= 4e-7*math.Max(1, math.Abs(ref[k]))) {
					bad("ColorFromXYY", fmt.Sprintf("ColorFromXYY(%g,%g,%g) = %v, float64 conversion gives %v", w.c.X, w.c.Y, w.c.YY, g, ref), a, b)
				}
			}
		}
		// white maps to white
		out := xyzV(ca.Apply(A))
		want := xyzV(B)
		for k := 0; k < 3; k++ {
			if !(math.Abs(out[k]-want[k]) <= 1e-6*math.Max(1, math.Abs(want[k]))) {
				bad("white-to-white", fmt.Sprintf("adaptation (%g,%g)->(%g,%g) maps the source white to %v, destination white is %v", a.X, a.Y, b.X, b.Y, out, want), a, b)
				break
			}
		}
		// equals the reference Bradford matrix (built from the float32 XYZ whites the code sees)
		ref := refs.BradfordAdapt(xyzV(A), xyzV(B))
		if d := refs.MaxAbsDiff(got, ref); !(d <= 1e-9*math.Max(1, ref.NormInf())) {
			bad("bradford-matrix", fmt.Sprintf("adaptation (%g,%g)->(%g,%g) differs from the float64 Bradford matrix by %.3g", a.X, a.Y, b.X, b.Y, d), a, b)
		}
		// and the one from exact float64 chromaticities, at float32 input precision
		ref2 := refs.BradfordAdapt(refs.XYZFromXYY(float64(a.X), float64(a.Y), 1), refs.XYZFromXYY(float64(b.X), float64(b.Y), 1))
		if d := refs.MaxAbsDiff(got, ref2); !(d <= 1e-7*math.Max(1, ref2.NormInf())) && !(d <= xySensitivity(a, b, ref2)) {
			bad("bradford-matrix-xy", fmt.Sprintf("adaptation (%g,%g)->(%g,%g) differs from the Bradford matrix of the exact chromaticities by %.3g", a.X, a.Y, b.X, b.Y, d), a, b)
		}
		// constructors agree
		cb := ciexyz.AdaptBetweenXYZWhitePoints(A, B)
		if d := refs.MaxAbsDiff(got, m3of(matrix.Matrix3(cb))); !(d <= 1e-12) {
			bad("constructors", fmt.Sprintf("xyY and XYZ constructors disagree by %.3g for (%g,%g)->(%g,%g)", d, a.X, a.Y, b.X, b.Y), a, b)
		}
		// inverse pair
		back := m3of(matrix.Matrix3(ciexyz.AdaptBetweenXYYWhitePoints(b, a)))
		if d := refs.MaxAbsDiff(back.Mul(got), refs.Identity()); !(d <= 1e-9*math.Max(1, ref.Cond())) {
			bad("inverse-pair", fmt.Sprintf("(B->A)(A->B) differs from identity by %.3g for A=(%g,%g) B=(%g,%g)", d, a.X, a.Y, b.X, b.Y), a, b)
		}
		if a == b {
			if d := refs.MaxAbsDiff(got, refs.Identity()); !(d <= 1e-12) {
				bad("self-identity", fmt.Sprintf("A->A differs from identity by %.3g for A=(%g,%g)", d, a.X, a.Y), a, b)
			}
		}
	}

	r.Par(ev.Workers(), func(shard, nw int) {
		var evals, distinct int64
		for i := shard; i < len(whites); i += nw {
			for j := range whites {
				checkPair(whites[i], whites[j])
				evals++
				if whites[i] != whites[j] {
					distinct++
				}
			}
		}
		r.Eval(evals)
		r.DistinctN(distinct)
	})

	// near-neighbour pairs
	var base []ciexyy.Color
	base = append(base, named...)
	for i := 0; i < nlat; i += nlat/16 + 1 {
		base = append(base, whites[i])
	}
	offs := []float32{1e-6, 1e-5, 1e-4, 3e-4, 1e-3, 3e-3}
	for _, a := range base {
		for _, d := range offs {
			for _, sx := range []float32{-1, 0, 1} {
				for _, sy := range []float32{-1, 0, 1} {
					if sx == 0 && sy == 0 {
						continue
					}
					b := ciexyy.Color{X: a.X + sx*d, Y: a.Y + sy*d, YY: 1}
					checkPair(a, b)
					checkPair(b, a)
					r.Eval(2)
					r.DistinctN(2)
				}
			}
		}
	}

	// consecutive requests whose whites differ by less than any plausible rounding
	// bucket, to the same destination and back: every answer must be for the
	// request just made
	for _, a := range base {
		for _, d := range []float32{2e-7, 1e-6, 4e-6, 1e-5, 3e-5, 1e-4} {
			for _, dst := range []ciexyy.Color{ciexyy.D50, ciexyy.D65} {
				a2 := ciexyy.Color{X: a.X + d, Y: a.Y - d/2, YY: 1}
				for _, q := range []ciexyy.Color{a, a2, a, a2} {
					for _, viaXYZ := range []bool{false, true} {
						var got refs.M3
						if viaXYZ {
							got = m3of(matrix.Matrix3(ciexyz.AdaptBetweenXYZWhitePoints(ciexyz.ColorFromXYY(q), ciexyz.ColorFromXYY(dst))))
						} else {
							got = m3of(matrix.Matrix3(ciexyz.AdaptBetweenXYYWhitePoints(q, dst)))
						}
						ref := refs.BradfordAdapt(xyzV(ciexyz.ColorFromXYY(q)), xyzV(ciexyz.ColorFromXYY(dst)))
						if dd := refs.MaxAbsDiff(got, ref); !(dd <= 1e-9*math.Max(1, ref.NormInf())) {
							bad("near-sequence", fmt.Sprintf("adaptation (%g,%g)->(%g,%g), requested right after one for a source %g away, differs from the reference by %.3g", q.X, q.Y, dst.X, dst.Y, d, dd), q, dst)
						}
						r.Eval(1)
					}
				}
			}
		}
	}

	// request sequences: the same request repeated, identity requests, both
	// constructors, in every order up to length 3 - each answer compared with
	// the reference whatever was asked before (no state may carry over)
	{
		type req struct {
			a, b ciexyy.Color
			xyz  bool
		}
		wA, wB := named[0], named[5]
		var reqs []req
		for _, p := range [][2]ciexyy.Color{{wA, wA}, {wA, wB}, {wB, wA}, {wB, wB}} {
			reqs = append(reqs, req{p[0], p[1], false}, req{p[0], p[1], true})
		}
		ask := func(q req) refs.M3 {
			if q.xyz {
				return m3of(matrix.Matrix3(ciexyz.AdaptBetweenXYZWhitePoints(ciexyz.ColorFromXYY(q.a), ciexyz.ColorFromXYY(q.b))))
			}
			return m3of(matrix.Matrix3(ciexyz.AdaptBetweenXYYWhitePoints(q.a, q.b)))
		}
		n := len(reqs)
		for l := 1; l <= 3; l++ {
			for idx := 0; idx < ipow(n, l); idx++ {
				q := idx
				var trace []string
				for k := 0; k < l; k++ {
					rq := reqs[q%n]
					q /= n
					got := ask(rq)
					ref := refs.BradfordAdapt(xyzV(ciexyz.ColorFromXYY(rq.a)), xyzV(ciexyz.ColorFromXYY(rq.b)))
					trace = append(trace, fmt.Sprintf("(%g,%g)->(%g,%g) via %s", rq.a.X, rq.a.Y, rq.b.X, rq.b.Y, map[bool]string{true: "XYZ", false: "xyY"}[rq.xyz]))
					if d := refs.MaxAbsDiff(got, ref); !(d <= 1e-9*math.Max(1, ref.NormInf())) {
						r.Violate("sequence", fmt.Sprintf("request %d of the sequence %v returned a matrix differing from the reference by %.3g", k+1, trace, d), map[string]interface{}{"sequence": trace}, nil)
					}
					r.Eval(1)
				}
			}
		}
	}

	// triples
	var tri []ciexyy.Color
	tri = append(tri, named...)
	for i := 0; i < 8; i++ {
		for j := 0; j < 8; j++ {
			tri = append(tri, ciexyy.Color{X: float32(0.2 + 0.3*float64(i)/7), Y: float32(0.2 + 0.3*float64(j)/7), YY: 1})
		}
	}
	mats := make([][]refs.M3, len(tri))
	for i := range tri {
		mats[i] = make([]refs.M3, len(tri))
		for j := range tri {
			mats[i][j] = m3of(matrix.Matrix3(ciexyz.AdaptBetweenXYYWhitePoints(tri[i], tri[j])))
		}
	}
	r.Par(ev.Workers(), func(shard, nw int) {
		var evals int64
		for i := shard; i < len(tri); i += nw {
			for j := range tri {
				for k := range tri {
					comp := mats[j][k].Mul(mats[i][j])
					if d := refs.MaxAbsDiff(comp, mats[i][k]); !(d <= 1e-9*math.Max(1, mats[i][j].Cond()*mats[j][k].Cond())) {
						bad("composition", fmt.Sprintf("(B->C)(A->B) differs from A->C by %.3g for A=(%g,%g) B=(%g,%g) C=(%g,%g)", d, tri[i].X, tri[i].Y, tri[j].X, tri[j].Y, tri[k].X, tri[k].Y), tri[i], tri[k])
					}
					evals++
				}
			}
		}
		r.Eval(evals)
	})

	// XYZ constructor with whites whose Y != 1 (scale invariance is not demanded; white-to-white is)
	for _, s := range []float32{0.25, 0.5, 2, 100} {
		for _, a := range named {
			for _, b := range named {
				A, B := ciexyz.ColorFromXYY(ciexyy.Color{X: a.X, Y: a.Y, YY: s}), ciexyz.ColorFromXYY(ciexyy.Color{X: b.X, Y: b.Y, YY: 1})
				out := xyzV(ciexyz.AdaptBetweenXYZWhitePoints(A, B).Apply(A))
				want := xyzV(B)
				for k := 0; k < 3; k++ {
					if !(math.Abs(out[k]-want[k]) <= 1e-6*math.Max(1, math.Abs(want[k]))) {
						bad("white-to-white-scaled", fmt.Sprintf("XYZ-constructed adaptation from white %v to %v maps the source white to %v", xyzV(A), want, out), a, b)
						break
					}
				}
				r.Eval(1)
			}
		}
	}

	// xyY constructor with whites whose luminance is not 1, on either side: the
	// source white still maps onto the destination white's XYZ, and the result is
	// the XYZ constructor's on the converted whites
	for _, sa := range []float32{1, 0.25, 0.8, 2, 100} {
		for _, sb := range []float32{1, 0.5, 0.8, 100} {
			if sa == 1 && sb == 1 {
				continue
			}
			for _, a0 := range named {
				for _, b0 := range named {
					a, b := ciexyy.Color{X: a0.X, Y: a0.Y, YY: sa}, ciexyy.Color{X: b0.X, Y: b0.Y, YY: sb}
					A, B := ciexyz.ColorFromXYY(a), ciexyz.ColorFromXYY(b)
					ca := ciexyz.AdaptBetweenXYYWhitePoints(a, b)
					out, want := xyzV(ca.Apply(A)), xyzV(B)
					for k := 0; k < 3; k++ {
						if !(math.Abs(out[k]-want[k]) <= 1e-6*math.Max(1, math.Abs(want[k]))) {
							bad("white-to-white-xyY-luminance", fmt.Sprintf("xyY-constructed adaptation from white (%g,%g) Y=%g to (%g,%g) Y=%g maps the source white to %v, destination white is %v", a.X, a.Y, a.YY, b.X, b.Y, b.YY, out, want), a, b)
							break
						}
					}
					ref := refs.BradfordAdapt(xyzV(A), xyzV(B))
					if d := refs.MaxAbsDiff(m3of(matrix.Matrix3(ca)), ref); !(d <= 1e-6*math.Max(1, ref.NormInf())) {
						bad("bradford-matrix-xyY-luminance", fmt.Sprintf("xyY-constructed adaptation (%g,%g) Y=%g -> (%g,%g) Y=%g differs from the float64 Bradford matrix of the converted whites by %.3g", a.X, a.Y, a.YY, b.X, b.Y, b.YY, d), a, b)
					}
					r.Eval(2)
				}
			}
		}
	}

	// Apply acts linearly: equals the matrix product in float64, rounded to float32
	var axis []float32
	axis = append(axis, -0.5, 0, 0.5, 1, 2)
	axis = append(axis, geoAxis()...)
	cas := []ciexyz.ChromaticAdaptation{
		ciexyz.AdaptBetweenXYYWhitePoints(ciexyy.D50, ciexyy.D65),
		ciexyz.AdaptBetweenXYYWhitePoints(ciexyy.D65, ciexyy.D50),
		ciexyz.AdaptBetweenXYYWhitePoints(named[0], named[6]),
		ciexyz.AdaptBetweenXYYWhitePoints(whites[0], whites[nlat-1]),
	}
	r.Par(ev.Workers(), func(shard, nw int) {
		var evals int64
		for ci, ca := range cas {
			M := m3of(matrix.Matrix3(ca))
			for i := shard; i < len(axis); i += nw {
				for _, y := range axis {
					for _, z := range axis {
						c := ciexyz.Color{X: axis[i], Y: y, Z: z}
						got := xyzV(ca.Apply(c))
						want := M.MulV(xyzV(c))
						for k := 0; k < 3; k++ {
							if !(math.Abs(got[k]-want[k]) <= 1.2e-7*math.Max(math.Abs(want[k]), 1e-30)+1e-37) {
								r.Violate("apply-linear", fmt.Sprintf("adaptation #%d Apply(%g,%g,%g) = %v, matrix product gives %v", ci, c.X, c.Y, c.Z, got, want),
									map[string]interface{}{"adaptation": ci, "xyz": []float32{c.X, c.Y, c.Z}}, nil)
								break
							}
						}
						evals++
					}
				}
			}
		}
		r.Eval(evals)
	})
	r.Sample(map[string]interface{}{"src": "D50 (0.34567,0.35850)", "dst": "D65 (0.31271,0.32902)", "matrix_row_major": m3of(matrix.Matrix3(cas[0])),
		"reference": refs.BradfordAdapt(xyzV(ciexyz.ColorFromXYY(ciexyy.D50)), xyzV(ciexyz.ColorFromXYY(ciexyy.D65)))})
	r.Finish()
}
