package props

import (
	"fmt"
	"math"

	"github.com/mandykoh/prism/cielab"
	"github.com/mandykoh/prism/ciexyz"

	"verif/engine/ev"
	"verif/refs"
)

func finite3(a, b, c float32) bool {
	for _, v := range []float32{a, b, c} {
		if math.IsNaN(float64(v)) || math.IsInf(float64(v), 0) {
			return false
		}
	}
	return true
}

// C13: CIE Lab matches the CIE 1976 definition and round-trips.
func C13(tier string) {
	r := ev.Begin("C13", tier, "exploration")
	r.NotExhaustive()
	steps, labSteps := 64, 48
	if tier == "thorough" {
		steps, labSteps = 400, 200
	}
	whites := []ciexyz.Color{ciexyz.D50, ciexyz.D65, {X: 1, Y: 1, Z: 1}, {X: 0.2, Y: 3, Z: 0.01}, {X: 0.9, Y: 1, Z: 0.3}, {X: 1.2, Y: 1, Z: 1.5}, {X: 0.5, Y: 0.5, Z: 0.5}, {X: 2, Y: 2, Z: 2}}
	geo := geoAxis()
	var axis []float32
	for i := 0; i < steps; i++ {
		axis = append(axis, float32(-0.5+2.5*float64(i)/float64(steps-1)))
	}
	r.Rule(fmt.Sprintf("XYZ on the uniform lattice [-0.5,2]^3 (%d steps/axis) and the geometric lattice G^3 (|G|=%d) x %d whites (D50, D65, six others incl. (0.2,3,0.01)); per axis every float32 whose ratio to the white lies in 216/24389 +/- 1e-6; Y ramp of 2^20 steps for monotonicity; Lab lattice L in [-10,110], a,b in [-200,200] (%d steps/axis); multiples k*white; conversions with pairs of whites differing by 1e-6..1e-2 relative on one axis, one after the other in both orders; distinct = lattice points whose three ratios are not all on the same side of the junction plus junction-window floats", steps, len(geo), len(whites), labSteps))
	r.Assume("the 1e-3 bound on ToLAB is widened by 1.2e-7*|value| (one float32 ulp of the result), which only matters for the extreme white (0.2,3,0.01) where components reach 6e4")
	r.Assume("reference: CIE 1976 L*a*b* with eps = 216/24389, kappa = 24389/27, cube root via math.Cbrt, float64")

	checkXYZ := func(c, w ciexyz.Color) (mixed bool) {
		lab := c.ToLAB(w)
		ref := refs.XYZToLab(xyzV(c), xyzV(w))
		cs := func() interface{} {
			return map[string]interface{}{"xyz": []float32{c.X, c.Y, c.Z}, "white": []float32{w.X, w.Y, w.Z}}
		}
		if !finite3(lab.L, lab.A, lab.B) {
			r.Violate("ToLAB/non-finite", fmt.Sprintf("ToLAB(%v, white %v) = %v", c, w, lab), cs(), nil)
			return
		}
		got := refs.V3{float64(lab.L), float64(lab.A), float64(lab.B)}
		for k := 0; k < 3; k++ {
			if !(math.Abs(got[k]-ref[k]) <= 1e-3+1.2e-7*math.Abs(ref[k])) {
				r.Violate("ToLAB/definition", fmt.Sprintf("ToLAB(%v, white %v) = %v, CIE definition gives (%.5f, %.5f, %.5f)", c, w, lab, ref[0], ref[1], ref[2]), cs(), nil)
				break
			}
		}
		back := ciexyz.ColorFromLAB(lab, w)
		if !finite3(back.X, back.Y, back.Z) {
			r.Violate("ColorFromLAB/non-finite", fmt.Sprintf("ColorFromLAB(%v, white %v) = %v", lab, w, back), cs(), nil)
			return
		}
		in, out, wv := xyzV(c), xyzV(back), xyzV(w)
		for k := 0; k < 3; k++ {
			tol := 1e-5 * math.Max(1, math.Max(math.Abs(in[k]), wv[k]))
			if !(math.Abs(in[k]-out[k]) <= tol) {
				r.Violate("roundtrip", fmt.Sprintf("XYZ->Lab->XYZ of %v (white %v) returns %v via %v (component %d off by %.3g > %.3g)", c, w, back, lab, k, math.Abs(in[k]-out[k]), tol), cs(), nil)
				break
			}
		}
		ax, ay, az := in[0]/wv[0] > refs.LabEps, in[1]/wv[1] > refs.LabEps, in[2]/wv[2] > refs.LabEps
		return !(ax == ay && ay == az)
	}

	for wi := range whites {
		w := whites[wi]
		r.Par(ev.Workers(), func(shard, n int) {
			var evals, distinct int64
			for _, ax := range [][]float32{axis, geo} {
				for i := shard; i < len(ax); i += n {
					for _, y := range ax {
						for _, z := range ax {
							if checkXYZ(ciexyz.Color{X: ax[i], Y: y, Z: z}, w) {
								distinct++
							}
							evals++
						}
					}
				}
			}
			r.Eval(evals)
			r.DistinctN(distinct)
		})

		// white and its multiples
		lw := w.ToLAB(w)
		if math.Abs(float64(lw.L)-100) > 1e-3 || math.Abs(float64(lw.A)) > 1e-3 || math.Abs(float64(lw.B)) > 1e-3 {
			r.Violate("white", fmt.Sprintf("white %v maps to %v, want (100,0,0)", w, lw), nil, nil)
		}
		for _, k := range geo {
			if k <= 0 {
				continue
			}
			c := ciexyz.Color{X: k * w.X, Y: k * w.Y, Z: k * w.Z}
			l := c.ToLAB(w)
			r.Eval(1)
			if math.Abs(float64(l.A)) > 1e-3 || math.Abs(float64(l.B)) > 1e-3 {
				r.Violate("neutral", fmt.Sprintf("%g x white %v maps to %v: a*, b* must be 0", k, w, l), map[string]interface{}{"k": k, "white": []float32{w.X, w.Y, w.Z}}, nil)
			}
		}

		// near-neutral colours: multiples of the white with one component nudged,
		// and Lab values with tiny a*, b*
		for _, k := range []float32{0.05, 0.18, 0.5, 0.9, 1, 1.5} {
			for _, d := range []float32{1e-6, 3e-6, 1e-5, 2.6e-5, 1e-4, 3e-4, 1e-3, 1e-2} {
				for axn := 0; axn < 3; axn++ {
					for _, sgn := range []float32{-1, 1} {
						c := ciexyz.Color{X: k * w.X, Y: k * w.Y, Z: k * w.Z}
						switch axn {
						case 0:
							c.X *= 1 + sgn*d
						case 1:
							c.Y *= 1 + sgn*d
						default:
							c.Z *= 1 + sgn*d
						}
						checkXYZ(c, w)
						r.Eval(1)
					}
				}
			}
		}
		for _, L := range []float32{-5, 0, 4, 8, 8.5, 20, 50, 51, 75, 95, 100, 105} {
			tiny := []float32{0, 1e-4, -1e-4, 1e-3, -1e-3, 4e-3, -4.5e-3, 6e-3, 0.01, -0.02, 0.1, -0.3}
			for _, A := range tiny {
				for _, B := range tiny {
					got := ciexyz.ColorFromLAB(cielab.Color{L: L, A: A, B: B}, w)
					ref := refs.LabToXYZ(refs.V3{float64(L), float64(A), float64(B)}, xyzV(w))
					g := xyzV(got)
					r.Eval(1)
					for q := 0; q < 3; q++ {
						if !(math.Abs(g[q]-ref[q]) <= 1e-5*math.Max(1, math.Abs(ref[q]))) {
							r.Violate("ColorFromLAB/near-neutral", fmt.Sprintf("ColorFromLAB(%g,%g,%g, white %v) = %v, CIE inverse gives (%.7f, %.7f, %.7f)", L, A, B, w, got, ref[0], ref[1], ref[2]),
								map[string]interface{}{"lab": []float32{L, A, B}, "white": []float32{w.X, w.Y, w.Z}}, nil)
							break
						}
					}
				}
			}
		}

		// junction window on each axis: every float32 with ratio in eps +/- 1e-6
		for axn := 0; axn < 3; axn++ {
			wc := []float32{w.X, w.Y, w.Z}[axn]
			lo := float32((refs.LabEps - 1e-6) * float64(wc))
			hi := float32((refs.LabEps + 1e-6) * float64(wc))
			holds := []float32{0.001, 0.4, 1.3}
			for _, h1 := range holds {
				var prevL float32
				first := true
				for k := f32Key(lo); k <= f32Key(hi); k++ {
					v := f32FromKey(k)
					c := ciexyz.Color{X: h1 * w.X, Y: h1 * w.Y, Z: h1 * w.Z}
					switch axn {
					case 0:
						c.X = v
					case 1:
						c.Y = v
					case 2:
						c.Z = v
					}
					checkXYZ(c, w)
					r.Eval(1)
					r.DistinctN(1)
					l := c.ToLAB(w)
					cur := []float32{l.A, l.L, l.B}[axn]
					if !first {
						if axn == 1 && cur < prevL {
							r.Violate("L-monotone", fmt.Sprintf("L* decreases from %g to %g when Y steps up one ulp to %g (white %v)", prevL, cur, v, w), map[string]interface{}{"Ybits": math.Float32bits(v)}, nil)
						}
						if math.Abs(float64(cur-prevL)) >= 1e-3 {
							r.Violate("junction-continuity", fmt.Sprintf("one-ulp step on axis %d to %g changes the Lab component from %g to %g (white %v)", axn, v, prevL, cur, w), map[string]interface{}{"bits": math.Float32bits(v), "axis": axn}, nil)
						}
					}
					prevL, first = cur, false
				}
			}
		}

		// Y ramp
		r.Par(ev.Workers(), func(shard, n int) {
			const N = 1 << 20
			per := N / n
			a, b := shard*per, (shard+1)*per
			if shard == n-1 {
				b = N
			}
			var prev float32
			for i := a - 1; i < b; i++ {
				if i < 0 {
					continue
				}
				y := float32(-0.5 + 2.5*float64(i)/float64(N-1))
				l := ciexyz.Color{X: 0.3, Y: y * w.Y, Z: 0.2}.ToLAB(w).L
				if i > a-1 && i > 0 && l < prev {
					r.Violate("L-monotone-ramp", fmt.Sprintf("L* decreases from %g to %g as Y rises to %g (white %v)", prev, l, y*w.Y, w), map[string]interface{}{"Y": y * w.Y}, nil)
				}
				prev = l
			}
			r.Eval(int64(b - a))
		})

		// Lab lattice through ColorFromLAB against the float64 inverse
		r.Par(ev.Workers(), func(shard, n int) {
			var evals int64
			for i := shard; i < labSteps; i += n {
				L := float32(-10 + 120*float64(i)/float64(labSteps-1))
				for j := 0; j < labSteps; j++ {
					A := float32(-200 + 400*float64(j)/float64(labSteps-1))
					for k := 0; k < labSteps; k++ {
						B := float32(-200 + 400*float64(k)/float64(labSteps-1))
						got := ciexyz.ColorFromLAB(cielab.Color{L: L, A: A, B: B}, w)
						ref := refs.LabToXYZ(refs.V3{float64(L), float64(A), float64(B)}, xyzV(w))
						evals++
						if !finite3(got.X, got.Y, got.Z) {
							r.Violate("ColorFromLAB/non-finite", fmt.Sprintf("ColorFromLAB(%g,%g,%g, white %v) = %v", L, A, B, w, got), nil, nil)
							continue
						}
						g := xyzV(got)
						for q := 0; q < 3; q++ {
							if !(math.Abs(g[q]-ref[q]) <= 1e-5*math.Max(1, math.Abs(ref[q]))) {
								r.Violate("ColorFromLAB/definition", fmt.Sprintf("ColorFromLAB(%g,%g,%g, white %v) = %v, CIE inverse gives (%.7f, %.7f, %.7f)", L, A, B, w, got, ref[0], ref[1], ref[2]),
									map[string]interface{}{"lab": []float32{L, A, B}, "white": []float32{w.X, w.Y, w.Z}}, nil)
								break
							}
						}
					}
				}
			}
			r.Eval(evals)
		})
		if r.OutOfTime() {
			r.Cap("time budget")
			break
		}
	}
	// whites that differ by less than any plausible "same white" tolerance, used
	// one after the other: each conversion must use the white it was given
	{
		probes := []ciexyz.Color{{X: 0.3, Y: 0.4, Z: 0.2}, {X: 0.9, Y: 1, Z: 0.8}, {X: 0.01, Y: 0.005, Z: 0.02}}
		for _, w := range whites {
			for _, d := range []float32{1e-6, 1e-5, 8e-5, 3e-4, 1e-3, 1e-2} {
				for axis := 0; axis < 3; axis++ {
					w2 := w
					switch axis {
					case 0:
						w2.X += d * w.X
					case 1:
						w2.Y += d * w.Y
					default:
						w2.Z += d * w.Z
					}
					for _, order := range [][2]ciexyz.Color{{w, w2}, {w2, w}} {
						for _, wh := range order {
							checkXYZ(wh, wh) // the white itself
							l := wh.ToLAB(wh)
							if math.Abs(float64(l.L)-100) > 1e-3 || math.Abs(float64(l.A)) > 1e-3 || math.Abs(float64(l.B)) > 1e-3 {
								r.Violate("white-sequence", fmt.Sprintf("white %v maps to %v right after a conversion with the nearby white %v", wh, l, order[0]), nil, nil)
							}
							for _, p := range probes {
								checkXYZ(p, wh)
							}
							r.Eval(int64(len(probes) + 1))
						}
					}
				}
			}
		}
	}
	c := ciexyz.Color{X: 0.3, Y: 0.3, Z: 0.0085}
	r.Sample(map[string]interface{}{"xyz": []float32{c.X, c.Y, c.Z}, "white": "D50", "ToLAB": c.ToLAB(ciexyz.D50), "reference": refs.XYZToLab(xyzV(c), xyzV(ciexyz.D50))})
	r.Finish()
}
