package props

import (
	"fmt"
	"image"
	"image/color"
	"math"
	"math/big"

	"github.com/mandykoh/prism/linear"

	"verif/engine/ev"
)

// nearest float32 to the rational a/max, computed with math/big.
func ratF32(a, max int64) float32 {
	q := new(big.Float).SetPrec(24).SetMode(big.ToNearestEven)
	q.Quo(new(big.Float).SetInt64(a), new(big.Float).SetInt64(max))
	f, _ := q.Float32()
	return f
}

// clampRound is the documented alpha encoding: round(alpha*max) clipped to [0,max].
// ok2 is a second acceptable value when alpha*max+0.5 is within float32
// rounding of an integer (the implementation works in float32).
func clampRound(alpha float32, max float64) (want, alt float64) {
	a := float64(alpha)
	switch {
	case math.IsNaN(a):
		return -1, -1
	case a <= 0:
		return 0, 0
	case a >= 1:
		return max, max
	}
	v := a*max + 0.5
	want = math.Floor(v)
	alt = want
	slack := max * 2.4e-7
	if v-want < slack && want > 0 {
		alt = want - 1
	}
	if want+1-v < slack && want < max {
		alt = want + 1
	}
	return
}

type customAlphaColour struct{ r, g, b, a uint32 }

func (c customAlphaColour) RGBA() (uint32, uint32, uint32, uint32) { return c.r, c.g, c.b, c.a }

// C14: alpha passes through exactly; linearised pixels stay validly premultiplied.
func C14(tier string) {
	r := ev.Begin("C14", tier, "exploration")
	if tier != "thorough" {
		r.NotExhaustive()
	}
	r.Assume("a fully transparent non-premultiplied 8-bit pixel given to ColorFromNRGBA keeps its decoded colour with alpha 0 (C04 requires the colour of alpha-0 NRGBA pixels to survive conversion); the zero-colour clause is checked on the premultiplied and generic constructors")
	r.Assume("encode-side expectation round(alpha*max) is evaluated in float64; where alpha*max+0.5 lies within M*2.4e-7 of an integer either neighbour is accepted (float32 arithmetic)")
	if tier == "thorough" {
		r.Rule("decode: all 65,536 alphas x every constructor x 4 spaces, all 8-bit (channel, alpha) pairs; premultiplied validity of LineariseColor: ALL (c, alpha) pairs with c <= alpha over 16 bits (2,147,516,416 per curve, 3 curves + Display P3); all alphas of Alpha/Alpha16/NYCbCrA/NRGBA/RGBA and a user-defined colour type; LineariseImage/EncodeImage on 256x256 images holding every alpha (origin (5,7), parallelism 1/3/7, destination fresh or pre-filled with 0xff); encode: all 65,536 a/65535 alphas plus the float32 alphabet (powers of two, 1.5x, +/-, Inf, NaN) through every converter; distinct = (space, c, alpha) triples with 0 < c < alpha < max")
	} else {
		r.Rule("decode: all 65,536 alphas x every constructor x 4 spaces, all 8-bit (channel, alpha) pairs; premultiplied validity of LineariseColor: all alphas x c in {0,1,2,alpha/2,alpha-2,alpha-1,alpha} and 64 evenly spaced c <= alpha; all alphas of Alpha/Alpha16/NYCbCrA/NRGBA/RGBA and a user-defined colour type; LineariseImage/EncodeImage on 256x256 images holding every alpha (origin (5,7), parallelism 1/3/7, destination fresh or pre-filled with 0xff); encode: all 65,536 a/65535 alphas plus the float32 alphabet (powers of two, 1.5x, +/-, Inf, NaN) through every converter; distinct = (space, c, alpha) triples with 0 < c < alpha < max")
	}

	// float32 alpha alphabet for the encode side
	var falphas []float32
	falphas = append(falphas, geoAxis()...)
	for e := -149; e <= 127; e++ {
		for _, m := range []float64{1, 1.5} {
			v := float32(m * math.Ldexp(1, e))
			falphas = append(falphas, v, -v)
		}
	}
	falphas = append(falphas, float32(math.Inf(1)), float32(math.Inf(-1)), math.MaxFloat32, -math.MaxFloat32,
		math.Float32frombits(0x7FC00000), math.Float32frombits(0xFFC00001), math.Float32frombits(0x7F800001))

	for si := range Spaces {
		sp := &Spaces[si]

		// ---- decode side, 8-bit pairs
		for a := 0; a < 256; a++ {
			wantA := ratF32(int64(a), 255)
			for c := 0; c < 256; c++ {
				g, b := (c+85)%256, (c+170)%256
				lin, alpha := sp.FromNRGBA(color.NRGBA{R: uint8(c), G: uint8(g), B: uint8(b), A: uint8(a)})
				r.Eval(1)
				if math.Float32bits(alpha) != math.Float32bits(wantA) {
					r.Violate(sp.Name+"/ColorFromNRGBA/alpha", fmt.Sprintf("%s ColorFromNRGBA alpha %d decodes to %.9g, A/255 is %.9g", sp.Name, a, alpha, wantA), nil, nil)
				}
				if !finite3(lin.R, lin.G, lin.B) {
					r.Violate(sp.Name+"/ColorFromNRGBA/finite", fmt.Sprintf("%s ColorFromNRGBA(%d,%d,%d,%d) = %v", sp.Name, c, g, b, a, lin), nil, nil)
				}
				lin2, alpha2 := sp.FromRGBA(color.RGBA{R: uint8(c), G: uint8(g), B: uint8(b), A: uint8(a)})
				r.Eval(1)
				if math.Float32bits(alpha2) != math.Float32bits(wantA) {
					r.Violate(sp.Name+"/ColorFromRGBA/alpha", fmt.Sprintf("%s ColorFromRGBA alpha %d decodes to %.9g, A/255 is %.9g", sp.Name, a, alpha2, wantA), nil, nil)
				}
				if a == 0 {
					if lin2 != (linear.RGB{}) {
						r.Violate(sp.Name+"/ColorFromRGBA/transparent", fmt.Sprintf("%s ColorFromRGBA of a fully transparent pixel = %v", sp.Name, lin2), nil, nil)
					}
				} else {
					for k, pr := range [3][2]float64{{float64(lin2.R), float64(c)}, {float64(lin2.G), float64(g)}, {float64(lin2.B), float64(b)}} {
						want := sp.Curve.EOTF(pr[1] / 255)
						if d := math.Abs(pr[0]*float64(alpha2) - want); !(d <= 3e-7+3e-7*want) {
							r.Violate(sp.Name+"/ColorFromRGBA/unpremultiply", fmt.Sprintf("%s ColorFromRGBA(%d,%d,%d,%d) channel %d = %g; times alpha = %.9g, EOTF gives %.9g", sp.Name, c, g, b, a, k, pr[0], pr[0]*float64(alpha2), want), nil, nil)
						}
					}
				}
				if a == 255 {
					lin3, _ := sp.FromEncodedColor(color.NRGBA{R: uint8(c), G: uint8(g), B: uint8(b), A: 255})
					lin4, _ := sp.FromEncodedColor(color.RGBA{R: uint8(c), G: uint8(g), B: uint8(b), A: 255})
					if lin != lin2 || lin != lin3 || lin != lin4 {
						r.Violate(sp.Name+"/constructors-agree", fmt.Sprintf("%s opaque (%d,%d,%d): ColorFromNRGBA %v, ColorFromRGBA %v, ColorFromEncodedColor %v / %v differ", sp.Name, c, g, b, lin, lin2, lin3, lin4), nil, nil)
					}
				}
				if c > 0 && c < a && a < 255 {
					r.DistinctN(1)
				}
			}
		}

		// ---- decode side, all 16-bit alphas through the generic constructors
		r.Par(ev.Workers(), func(shard, n int) {
			var evals int64
			for a := shard; a < 65536; a += n {
				wantA := ratF32(int64(a), 65535)
				c := uint16(a / 2)
				for k, col := range []color.Color{
					color.NRGBA64{R: 40000, G: 123, B: 65535, A: uint16(a)},
					color.RGBA64{R: c, G: uint16(a), B: 0, A: uint16(a)},
				} {
					name := [...]string{"NRGBA64", "RGBA64"}[k]
					lin, alpha := sp.FromEncodedColor(col)
					lin2, alpha2 := sp.FromLinearColor(col)
					evals += 2
					if math.Float32bits(alpha) != math.Float32bits(wantA) || math.Float32bits(alpha2) != math.Float32bits(wantA) {
						r.Violate(sp.Name+"/generic/alpha", fmt.Sprintf("%s ColorFromEncodedColor/ColorFromLinearColor(%s alpha %d) decode alpha to %.9g / %.9g, A/65535 is %.9g", sp.Name, name, a, alpha, alpha2, wantA), map[string]interface{}{"alpha": a}, nil)
					}
					if a == 0 && (lin != (linear.RGB{}) || lin2 != (linear.RGB{})) {
						r.Violate(sp.Name+"/generic/transparent", fmt.Sprintf("%s fully transparent %s decodes to %v / %v", sp.Name, name, lin, lin2), nil, nil)
					}
					if !finite3(lin.R, lin.G, lin.B) || !finite3(lin2.R, lin2.G, lin2.B) {
						r.Violate(sp.Name+"/generic/finite", fmt.Sprintf("%s %s alpha %d decodes to %v / %v", sp.Name, name, a, lin, lin2), nil, nil)
					}
					// alpha is bit-identical through linearise and encode
					if out := sp.Linearise(col); out.A != uint16(a) {
						r.Violate(sp.Name+"/LineariseColor/alpha", fmt.Sprintf("%s LineariseColor(%s %v) returns alpha %d", sp.Name, name, col, out.A), map[string]interface{}{"alpha": a}, nil)
					}
					if out := sp.Encode(col); out.A != uint16(a) {
						r.Violate(sp.Name+"/EncodeColor/alpha", fmt.Sprintf("%s EncodeColor(%s %v) returns alpha %d", sp.Name, name, col, out.A), map[string]interface{}{"alpha": a}, nil)
					}
					evals += 2
				}
				// encode side with alpha = a/65535
				af := float32(a) / 65535
				col := linear.RGB{R: 0.25, G: 0.5, B: 1}
				if got := sp.ToRGBA64(col, af).A; got != uint16(a) {
					r.Violate(sp.Name+"/ToRGBA64/alpha", fmt.Sprintf("%s ToRGBA64(alpha %d/65535) writes alpha %d", sp.Name, a, got), nil, nil)
				}
				if got := col.ToLinearRGBA64(af).A; got != uint16(a) {
					r.Violate("linear/ToLinearRGBA64/alpha", fmt.Sprintf("ToLinearRGBA64(alpha %d/65535) writes alpha %d", a, got), nil, nil)
				}
				evals += 2
			}
			r.Eval(evals)
		})

		// ---- every other colour type that carries alpha, all 256 / 65,536 alphas
		r.Par(ev.Workers(), func(shard, n int) {
			var evals int64
			other := func(name string, col color.Color) {
				_, _, _, a16 := col.RGBA()
				wantA := ratF32(int64(a16), 65535)
				lin, alpha := sp.FromEncodedColor(col)
				_, alpha2 := sp.FromLinearColor(col)
				evals += 2
				if math.Float32bits(alpha) != math.Float32bits(wantA) || math.Float32bits(alpha2) != math.Float32bits(wantA) {
					r.Violate(sp.Name+"/"+name+"/alpha", fmt.Sprintf("%s decoding %s %v gives alpha %.9g / %.9g, A/65535 is %.9g", sp.Name, name, col, alpha, alpha2, wantA), nil, nil)
				}
				if a16 == 0 && lin != (linear.RGB{}) {
					r.Violate(sp.Name+"/"+name+"/transparent", fmt.Sprintf("%s fully transparent %s %v decodes to %v", sp.Name, name, col, lin), nil, nil)
				}
				if out := sp.Linearise(col); uint32(out.A) != a16 || out.R > out.A || out.G > out.A || out.B > out.A {
					r.Violate(sp.Name+"/"+name+"/LineariseColor", fmt.Sprintf("%s LineariseColor(%s %v) = %v (alpha in %d)", sp.Name, name, col, out, a16), nil, nil)
				}
				if out := sp.Encode(col); uint32(out.A) != a16 {
					r.Violate(sp.Name+"/"+name+"/EncodeColor", fmt.Sprintf("%s EncodeColor(%s %v) = %v (alpha in %d)", sp.Name, name, col, out, a16), nil, nil)
				}
			}
			for a := shard; a < 65536; a += n {
				other("Alpha16", color.Alpha16{A: uint16(a)})
				other("custom-with-alpha", customAlphaColour{uint32(a / 2), uint32(a), 0, uint32(a)})
				if a < 256 {
					other("Alpha", color.Alpha{A: uint8(a)})
					for _, y := range []uint8{0, 40, 128, 255} {
						other("NYCbCrA", color.NYCbCrA{YCbCr: color.YCbCr{Y: y, Cb: 100, Cr: 180}, A: uint8(a)})
					}
					other("NRGBA", color.NRGBA{R: 200, G: 3, B: uint8(a), A: uint8(a)})
					other("RGBA", color.RGBA{R: uint8(a / 2), G: uint8(a), B: 0, A: uint8(a)})
				}
			}
			r.Eval(evals)
		})

		// ---- encode side, float32 alphabet
		for _, af := range falphas {
			func() {
				defer func() {
					if p := recover(); p != nil {
						r.Violate(sp.Name+"/encode-alpha-panic", fmt.Sprintf("%s encoding with alpha %g panicked: %v", sp.Name, af, p), nil, nil)
					}
				}()
				col := linear.RGB{R: 0.25, G: 0.5, B: 1}
				got := map[string]float64{
					"ToNRGBA":        float64(sp.ToNRGBA(col, af).A),
					"ToRGBA":         float64(sp.ToRGBA(col, af).A),
					"ToRGBA64":       float64(sp.ToRGBA64(col, af).A),
					"ToLinearRGBA64": float64(col.ToLinearRGBA64(af).A),
				}
				r.Eval(4)
				for name, g := range got {
					max := 65535.0
					if name == "ToNRGBA" || name == "ToRGBA" {
						max = 255
					}
					want, alt := clampRound(af, max)
					if want < 0 {
						continue // NaN: only "returns"
					}
					if g != want && g != alt {
						r.Violate(sp.Name+"/"+name+"/alpha-law", fmt.Sprintf("%s %s(alpha %.9g) writes alpha %v, round(clip(alpha)*max) = %v", sp.Name, name, af, g, want), map[string]interface{}{"alpha_bits": math.Float32bits(af)}, nil)
					}
				}
			}()
		}

		// ---- premultiplied validity of LineariseColor
		premult := func(c, a int) {
			out := sp.Linearise(color.RGBA64{R: uint16(c), G: uint16(a), B: uint16(c / 2), A: uint16(a)})
			if out.R > out.A || out.G > out.A || out.B > out.A || out.A != uint16(a) {
				r.Violate(sp.Name+"/premultiplied", fmt.Sprintf("%s LineariseColor(RGBA64{%d,%d,%d,%d}) = %v is not a valid premultiplied pixel with the same alpha", sp.Name, c, a, c/2, a, out),
					map[string]interface{}{"c": c, "alpha": a}, nil)
			}
		}
		r.Par(ev.Workers(), func(shard, n int) {
			var evals, distinct int64
			for a := shard; a < 65536; a += n {
				if tier == "thorough" {
					for c := 0; c <= a; c++ {
						premult(c, a)
					}
					evals += int64(a + 1)
					if a > 1 && a < 65535 {
						distinct += int64(a - 1)
					}
				} else {
					seen := map[int]bool{}
					for _, c := range []int{0, 1, 2, a / 2, a - 2, a - 1, a} {
						if c >= 0 && c <= a && !seen[c] {
							seen[c] = true
							premult(c, a)
						}
					}
					for k := 0; k < 64; k++ {
						c := int(int64(a) * int64(k) / 64)
						if !seen[c] {
							seen[c] = true
							premult(c, a)
						}
					}
					evals += int64(len(seen))
					for c := range seen {
						if c > 0 && c < a && a < 65535 {
							distinct++
						}
					}
				}
			}
			r.Eval(evals)
			r.DistinctN(distinct)
		})
		// ---- the same through the image functions: a 256x256 image holding every
		// alpha, at a non-zero origin, several degrees of parallelism
		for _, kind := range []string{"RGBA64", "NRGBA64"} {
			for _, par := range []int{1, 3, 7} {
				for _, op := range []string{"LineariseImage", "EncodeImage"} {
					rect := image.Rect(5, 7, 5+256, 7+256)
					var src image.Image
					var sp64 *image.RGBA64
					var sn64 *image.NRGBA64
					if kind == "RGBA64" {
						sp64 = image.NewRGBA64(rect)
						src = sp64
					} else {
						sn64 = image.NewNRGBA64(rect)
						src = sn64
					}
					for a := 0; a < 65536; a++ {
						x, y := 5+a%256, 7+a/256
						if sp64 != nil {
							sp64.SetRGBA64(x, y, color.RGBA64{R: uint16(a / 2), G: uint16(a), B: uint16(a / 3), A: uint16(a)})
						} else {
							sn64.SetNRGBA64(x, y, color.NRGBA64{R: 40000, G: uint16(a), B: 123, A: uint16(a)})
						}
					}
					for _, fill := range []byte{0, 0xFF} {
						// the destination is either fresh or a reused buffer full of old data
						dst := image.NewRGBA64(image.Rect(0, 0, 256, 256))
						for i := range dst.Pix {
							dst.Pix[i] = fill
						}
						r.Guard(sp.Name+"/"+op+"/panic", func() {
							if op == "LineariseImage" {
								sp.LineariseImage(dst, src, par)
							} else {
								sp.EncodeImage(dst, src, par)
							}
						})
						for a := 0; a < 65536; a++ {
							if got := dst.RGBA64At(a%256, a/256).A; got != uint16(a) {
								r.Violate(sp.Name+"/"+op+"/alpha", fmt.Sprintf("%s.%s of a %s image at origin (5,7), parallelism %d, destination pre-filled with 0x%02x: the pixel with alpha %d comes out with alpha %d", sp.Name, op, kind, par, fill, a, got),
									map[string]interface{}{"alpha": a, "parallelism": par, "kind": kind, "fill": fill}, nil)
								break
							}
						}
						r.Eval(65536)
					}
				}
			}
		}
		r.Sample(map[string]interface{}{"space": sp.Name, "pixel": "RGBA64{30000,40000,15000,40000}", "LineariseColor": sp.Linearise(color.RGBA64{R: 30000, G: 40000, B: 15000, A: 40000})})
		if r.OutOfTime() {
			r.Cap("time budget")
			break
		}
	}
	r.Finish()
}
