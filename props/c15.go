package props

import (
	"bytes"
	"fmt"
	"image"
	"image/color"
	"image/draw"
	"strings"

	"github.com/mandykoh/prism"

	"verif/engine/ev"
)

type c15Case struct {
	Helper, Kind string
	Rect         string
	Margin       int
	Parallelism  int
	Content      string
}

type c15Helper struct {
	name   string
	conv   func(img image.Image, par int) image.Image
	fresh  func(r image.Rectangle) draw.Image
	pix    func(img image.Image) ([]uint8, int)
	target string
}

var c15Helpers = []c15Helper{
	{"ConvertImageToNRGBA", func(i image.Image, p int) image.Image { return prism.ConvertImageToNRGBA(i, p) },
		func(r image.Rectangle) draw.Image { return image.NewNRGBA(r) },
		func(i image.Image) ([]uint8, int) { m := i.(*image.NRGBA); return m.Pix, m.Stride }, "NRGBA"},
	{"ConvertImageToRGBA", func(i image.Image, p int) image.Image { return prism.ConvertImageToRGBA(i, p) },
		func(r image.Rectangle) draw.Image { return image.NewRGBA(r) },
		func(i image.Image) ([]uint8, int) { m := i.(*image.RGBA); return m.Pix, m.Stride }, "RGBA"},
	{"ConvertImageToRGBA64", func(i image.Image, p int) image.Image { return prism.ConvertImageToRGBA64(i, p) },
		func(r image.Rectangle) draw.Image { return image.NewRGBA64(r) },
		func(i image.Image) ([]uint8, int) { m := i.(*image.RGBA64); return m.Pix, m.Stride }, "RGBA64"},
}

func c15One(r *ev.Run, h *c15Helper, kind string, img image.Image, planes func() [][]uint8, margin, par int, content string) {
	b := img.Bounds()
	cs := c15Case{h.name, kind, b.String(), margin, par, content}
	key := h.name + "/" + kind
	before := snapshot(planes())
	var out image.Image
	panicked := true
	func() {
		defer func() {
			if p := recover(); p != nil {
				r.Violate(key+"/panic", fmt.Sprintf("%s(%s %v, %d) panicked: %v", h.name, kind, b, par, p), cs, nil)
			}
		}()
		out = h.conv(img, par)
		panicked = false
	}()
	if panicked {
		return
	}
	if ok, pl, at := planesEqual(planes(), before); !ok {
		r.Violate(key+"/input-modified", fmt.Sprintf("%s modified its input (plane %d byte %d) [%+v]", h.name, pl, at, cs), cs, nil)
	}
	if kind == h.target {
		if out != img {
			r.Violate(key+"/same-instance", fmt.Sprintf("%s did not return the same instance for an input already of the target type [%+v]", h.name, cs), cs, nil)
		}
		return
	}
	if out.Bounds() != b {
		r.Violate(key+"/bounds", fmt.Sprintf("%s returned bounds %v for input bounds %v [%+v]", h.name, out.Bounds(), b, cs), cs, nil)
		return
	}
	want := h.fresh(b)
	draw.Draw(want, b, img, b.Min, draw.Src)
	gp, gs := h.pix(out)
	wp, ws := h.pix(want)
	if gs != ws || !bytes.Equal(gp, wp) {
		at := -1
		for i := range wp {
			if i >= len(gp) || gp[i] != wp[i] {
				at = i
				break
			}
		}
		bpp := ws / maxInt(1, b.Dx())
		x, y := 0, 0
		if ws > 0 && bpp > 0 {
			y, x = at/ws, (at%ws)/bpp
		}
		r.Violate(key, fmt.Sprintf("%s differs from draw.Draw(Src) at pixel (%d,%d) byte %d: got %v want %v, source pixel %v [%+v]", h.name, b.Min.X+x, b.Min.Y+y, at,
			sliceAt(gp, at-at%maxInt(1, bpp), bpp), sliceAt(wp, at-at%maxInt(1, bpp), bpp), img.At(b.Min.X+x, b.Min.Y+y), cs), cs, nil)
	}
}

func sliceAt(p []uint8, at, n int) []uint8 {
	if at < 0 || at >= len(p) {
		return nil
	}
	e := at + n
	if e > len(p) {
		e = len(p)
	}
	return p[at:e]
}

func maxInt(a, b int) int {
	if a > b {
		return a
	}
	return b
}

// C15: the image type conversion helpers equal draw.Draw with the Src operator.
func C15(tier string) {
	r := ev.Begin("C15", tier, "exploration")
	sizes := [][2]int{{3, 2}, {1, 4}, {4, 1}, {0, 0}, {5, 4}, {2, 7}, {64, 16}, {256, 3}, {3, 131}, {1100, 3}, {2, 323}}
	origins := []image.Point{{0, 0}, {-2, -3}, {5, 7}, {-7, 2}}
	pars := func(rows int) []int { return []int{1, 2, 3, 4, 5, 7, 11, 13, 16, 64, 257, 300, rows + 5} }
	r.Rule(fmt.Sprintf("complete product: 3 helpers x %d image types (every concrete type of package image incl. 6 YCbCr subsamplings, NYCbCrA, paletted, CMYK, alpha, plus an interface-only wrapper) x %d sizes x %d origins x {whole image, sub-image of a larger parent} x 4 byte patterns (one fully opaque) x parallelism {1,2,3,4,5,7,11,13,16,64,257,300,rows+5}; call sequences (convert, modify pixels and palette in place, convert again, convert another image sharing the palette, earlier result unchanged); thorough adds a 4096x4096 4:4:4 YCbCr holding all 2^24 (Y,Cb,Cr) triples and 256x256 NRGBA/RGBA/RGBA64/NRGBA64 images holding all 8-bit (channel, alpha) pairs; distinct = configurations with a non-empty input not already of the target type", len(imgKinds), len(sizes), len(origins)))
	r.Assume("image.Uniform (unbounded) is not a possible input of an allocating helper and is not generated; subsampled YCbCr/NYCbCrA images with negative coordinates are skipped because package image itself mis-indexes them")

	type job struct {
		hi, ki, zi, oi, margin, seed int
	}
	var jobs []job
	for hi := range c15Helpers {
		for ki := range imgKinds {
			for zi := range sizes {
				for oi := range origins {
					for _, m := range []int{0, 2} {
						for seed := 0; seed < 4; seed++ {
							jobs = append(jobs, job{hi, ki, zi, oi, m, seed})
						}
					}
				}
			}
		}
	}
	r.Par(ev.Workers(), func(shard, n int) {
		var evals, distinct int64
		for ji := shard; ji < len(jobs); ji += n {
			j := jobs[ji]
			h, kind := &c15Helpers[j.hi], imgKinds[j.ki]
			o, sz := origins[j.oi], sizes[j.zi]
			rect := image.Rect(o.X, o.Y, o.X+sz[0], o.Y+sz[1])
			sub := strings.HasPrefix(kind, "YCbCr") && kind != "YCbCr444" || kind == "NYCbCrA"
			if sub && (rect.Min.X-j.margin < 0 || rect.Min.Y-j.margin < 0) {
				continue
			}
			img, planes := newImage(kind, rect, j.margin, j.seed)
			for _, par := range pars(rect.Dy()) {
				c15One(r, h, kind, img, planes, j.margin, par, fmt.Sprintf("pattern#%d", j.seed))
				evals++
				if !rect.Empty() && kind != h.target {
					distinct++
				}
			}
			if r.NViolations() > 30 {
				break
			}
		}
		r.Eval(evals)
		r.DistinctN(distinct)
	})

	// exhaustive pixel contents
	if tier == "thorough" {
		y := image.NewYCbCr(image.Rect(0, 0, 4096, 4096), image.YCbCrSubsampleRatio444)
		for i := 0; i < 1<<24; i++ {
			y.Y[i], y.Cb[i], y.Cr[i] = uint8(i), uint8(i>>8), uint8(i>>16)
		}
		for hi := range c15Helpers {
			for _, par := range []int{1, 16} {
				c15One(r, &c15Helpers[hi], "YCbCr444", y, func() [][]uint8 { return [][]uint8{y.Y, y.Cb, y.Cr} }, 0, par, "all 2^24 YCbCr triples")
				r.Eval(1)
				r.DistinctN(1)
			}
		}
	}
	// all (channel, alpha) 8-bit pairs in 4-channel images (both tiers: 65,536 pixels each)
	{
		n := image.NewNRGBA(image.Rect(0, 0, 256, 256))
		p := image.NewRGBA(image.Rect(0, 0, 256, 256))
		n64 := image.NewNRGBA64(image.Rect(0, 0, 256, 256))
		p64 := image.NewRGBA64(image.Rect(0, 0, 256, 256))
		for a := 0; a < 256; a++ {
			for c := 0; c < 256; c++ {
				i := (a*256 + c) * 4
				n.Pix[i], n.Pix[i+1], n.Pix[i+2], n.Pix[i+3] = uint8(c), uint8(255-c), uint8(c^0x55), uint8(a)
				p.Pix[i], p.Pix[i+1], p.Pix[i+2], p.Pix[i+3] = uint8(c), uint8(255-c), uint8(c^0x55), uint8(a)
				j := (a*256 + c) * 8
				for k, v := range []uint8{uint8(c), uint8(a), uint8(255 - c), uint8(c), uint8(c ^ 0x55), uint8(a ^ c), uint8(a), uint8(c)} {
					n64.Pix[j+k] = v
					p64.Pix[j+k] = v
				}
			}
		}
		for hi := range c15Helpers {
			for _, par := range []int{1, 7} {
				c15One(r, &c15Helpers[hi], "NRGBA", n, func() [][]uint8 { return [][]uint8{n.Pix} }, 0, par, "all 8-bit (channel, alpha) pairs")
				c15One(r, &c15Helpers[hi], "RGBA", p, func() [][]uint8 { return [][]uint8{p.Pix} }, 0, par, "all 8-bit (channel, alpha) pairs")
				c15One(r, &c15Helpers[hi], "NRGBA64", n64, func() [][]uint8 { return [][]uint8{n64.Pix} }, 0, par, "all (channel, alpha) byte pairs")
				c15One(r, &c15Helpers[hi], "RGBA64", p64, func() [][]uint8 { return [][]uint8{p64.Pix} }, 0, par, "all (channel, alpha) byte pairs")
				r.Eval(4)
				r.DistinctN(3)
			}
		}
	}
	// all-zero inputs of every type (freshly allocated images)
	// constant-byte inputs of every type (0 = freshly allocated image, 255, 128)
	for hi := range c15Helpers {
		for _, kind := range imgKinds {
			for _, fill := range []uint8{0, 255, 128} {
				img, planes := newImage(kind, image.Rect(0, 0, 6, 5), 0, 0)
				for _, pl := range planes() {
					for i := range pl {
						pl[i] = fill
						if kind == "Paletted" {
							pl[i] = fill % 16
						}
					}
				}
				for _, par := range []int{1, 2, 3, 10} {
					c15One(r, &c15Helpers[hi], kind, img, planes, 0, par, fmt.Sprintf("every byte %d", fill))
					r.Eval(1)
					r.DistinctN(1)
				}
			}
		}
	}
	// sequences: convert, change the input in place (pixels and palette), convert
	// again; convert a second image sharing the palette slice; the first result
	// must stay what it was (results may not alias each other or cached state)
	for hi := range c15Helpers {
		h := &c15Helpers[hi]
		for _, kind := range imgKinds {
			for _, par := range []int{1, 3} {
				img, planes := newImage(kind, image.Rect(1, 2, 8, 7), 1, 4)
				c15One(r, h, kind, img, planes, 1, par, "sequence step 1")
				var first []uint8
				var firstImg image.Image
				if kind != h.target {
					firstImg = h.conv(img, par)
					p, _ := h.pix(firstImg)
					first = append([]uint8(nil), p...)
				}
				for _, pl := range planes() {
					for i := range pl {
						pl[i] ^= 0x5A
						if kind == "Paletted" {
							pl[i] %= 16
						}
					}
				}
				var pal color.Palette
				if pi, ok := img.(*image.Paletted); ok {
					pal = pi.Palette
					for i := range pal {
						pal[i] = color.NRGBA{R: uint8(200 - i), G: uint8(i * 9), B: uint8(50 + i), A: uint8(255 - i*3)}
					}
				}
				c15One(r, h, kind, img, planes, 1, par, "sequence step 2: same image object after its pixels (and palette) were changed in place")
				if pal != nil {
					img2 := image.NewPaletted(image.Rect(0, 0, 5, 4), pal)
					for i := range img2.Pix {
						img2.Pix[i] = uint8(i % 16)
					}
					c15One(r, h, kind, img2, func() [][]uint8 { return [][]uint8{img2.Pix} }, 0, par, "sequence step 3: another image sharing the palette slice")
					pal[3] = color.NRGBA{R: 1, G: 2, B: 3, A: 255}
					c15One(r, h, kind, img2, func() [][]uint8 { return [][]uint8{img2.Pix} }, 0, par, "sequence step 4: after one palette entry changed")
				}
				if firstImg != nil {
					p, _ := h.pix(firstImg)
					if !bytes.Equal(p, first) {
						r.Violate(h.name+"/"+kind+"/result-aliased", fmt.Sprintf("%s: the image returned by an earlier call changed after the input was modified and converted again (%s)", h.name, kind), nil, nil)
					}
				}
				r.Eval(3)
				r.DistinctN(2)
			}
		}
	}
	r.Sample(c15Case{"ConvertImageToRGBA64", "YCbCr420", "(5,7)-(10,11)", 2, 3, "pattern#1"})
	r.Sample(c15Case{"ConvertImageToNRGBA", "RGBA64", "(-2,-3)-(62,13)", 0, 16, "pattern#0"})
	r.Finish()
}
