package props

import (
	"bufio"
	"bytes"
	"encoding/hex"
	"fmt"
	"io"

	"github.com/mandykoh/prism/meta/icc"

	"verif/engine/ev"
	"verif/gen"
	"verif/refs"
)

// profileFromHeader appends an empty tag table to a 128-byte header.
func profileFromHeader(h []byte) []byte {
	out := append([]byte(nil), h...)
	return append(out, 0, 0, 0, 0)
}

func cmpHeader(h icc.Header, ref refs.RefHeader) string {
	switch {
	case h.ProfileSize != ref.Size:
		return fmt.Sprintf("ProfileSize %#x, bytes 0-3 hold %#x", h.ProfileSize, ref.Size)
	case uint32(h.PreferredCMM) != ref.PreferredCMM:
		return fmt.Sprintf("PreferredCMM %#x, bytes 4-7 hold %#x", uint32(h.PreferredCMM), ref.PreferredCMM)
	case h.Version.Major != ref.Major || h.Version.MinorAndRev != ref.MinorRev:
		return fmt.Sprintf("Version bytes %#x %#x, bytes 8-9 hold %#x %#x", h.Version.Major, h.Version.MinorAndRev, ref.Major, ref.MinorRev)
	case uint32(h.DeviceClass) != ref.Class:
		return fmt.Sprintf("DeviceClass %#x, bytes 12-15 hold %#x", uint32(h.DeviceClass), ref.Class)
	case uint32(h.DataColorSpace) != ref.ColorSpace:
		return fmt.Sprintf("DataColorSpace %#x, bytes 16-19 hold %#x", uint32(h.DataColorSpace), ref.ColorSpace)
	case uint32(h.ProfileConnectionSpace) != ref.PCS:
		return fmt.Sprintf("ProfileConnectionSpace %#x, bytes 20-23 hold %#x", uint32(h.ProfileConnectionSpace), ref.PCS)
	case uint32(h.PrimaryPlatform) != ref.Platform:
		return fmt.Sprintf("PrimaryPlatform %#x, bytes 40-43 hold %#x", uint32(h.PrimaryPlatform), ref.Platform)
	case h.Embedded != ref.Embedded:
		return fmt.Sprintf("Embedded %v, flags word %#08x has bit 0 = %v", h.Embedded, ref.Flags, ref.Embedded)
	case h.DependsOnEmbeddedData != ref.NotIndependent:
		return fmt.Sprintf("DependsOnEmbeddedData %v, flags word %#08x has bit 1 = %v", h.DependsOnEmbeddedData, ref.Flags, ref.NotIndependent)
	case uint32(h.DeviceManufacturer) != ref.Manufacturer:
		return fmt.Sprintf("DeviceManufacturer %#x, bytes 48-51 hold %#x", uint32(h.DeviceManufacturer), ref.Manufacturer)
	case uint32(h.DeviceModel) != ref.Model:
		return fmt.Sprintf("DeviceModel %#x, bytes 52-55 hold %#x", uint32(h.DeviceModel), ref.Model)
	case h.DeviceAttributes != ref.Attributes:
		return fmt.Sprintf("DeviceAttributes %#x, bytes 56-63 hold %#x", h.DeviceAttributes, ref.Attributes)
	case uint32(h.RenderingIntent) != ref.Intent:
		return fmt.Sprintf("RenderingIntent %#x, bytes 64-67 hold %#x", uint32(h.RenderingIntent), ref.Intent)
	case h.PCSIlluminant != ref.Illuminant:
		return fmt.Sprintf("PCSIlluminant %#x, bytes 68-79 hold %#x", h.PCSIlluminant, ref.Illuminant)
	case uint32(h.ProfileCreator) != ref.Creator:
		return fmt.Sprintf("ProfileCreator %#x, bytes 80-83 hold %#x", uint32(h.ProfileCreator), ref.Creator)
	case h.ProfileID != ref.ID:
		return fmt.Sprintf("ProfileID %x, bytes 84-99 hold %x", h.ProfileID, ref.ID)
	}
	if t, ok := ref.ValidDate(); ok && !h.CreatedAt.Equal(t) {
		return fmt.Sprintf("CreatedAt %v, bytes 24-35 hold %v", h.CreatedAt, t)
	}
	return ""
}

// C16: ICC header fields are decoded as the specification lays them out.
func C16(tier string) {
	r := ev.Begin("C16", tier, "exploration")
	r.NotExhaustive()
	r.Rule("128-byte headers with the acsp signature and an empty tag table: all-zero, all-ones, walking ones and walking zeros over all 1,024 bit positions (on seven backgrounds incl. two realistic headers), every byte lane through 0..255 on three backgrounds, all 65,536 values of the two version bytes, every valid value of each date-time component with the others held at two settings, all 16 combinations of flag bits 0/1/30/31; every single-bit and single-byte change of the signature must be rejected; each through a plain byte reader and a 16-byte bufio reader; thorough adds all 65,536 values of each of the 64 aligned half-words on two backgrounds; distinct = distinct header byte strings; plus every sequence of up to 4 (thorough 5) Read/Description operations over five profiles built to collide (same profile ID, different flags/intent/version), each header compared with the independent decode")
	r.Assume("CreatedAt is compared only when the six date-time numbers form a valid calendar instant (the property quantifies over valid components); an invalid dateTimeNumber must still not disturb any other field")
	r.Assume("a decoder that reads each field from a fixed byte range is what the walking patterns characterise: every header bit is shown to feed exactly the field ICC.1 assigns it to, on the backgrounds tried")
	seen := map[string]bool{}

	try := func(h []byte, what string) {
		if len(h) != 128 {
			panic("header length")
		}
		k := string(h)
		if !seen[k] {
			seen[k] = true
		}
		ref := refs.DecodeHeader(h)
		data := profileFromHeader(h)
		for ri, mk := range []func() *icc.ProfileReader{
			func() *icc.ProfileReader { return icc.NewProfileReader(bytes.NewReader(data)) },
			func() *icc.ProfileReader { return icc.NewProfileReader(bufio.NewReaderSize(bytes.NewReader(data), 16)) },
			// a source that hands out at most 7 bytes per call: a reader that takes
			// one short Read for the end of the header is exposed
			func() *icc.ProfileReader {
				return icc.NewProfileReader(bufio.NewReaderSize(&dribble{r: bytes.NewReader(data), n: 7}, 16))
			},
		} {
			r.Eval(1)
			var p *icc.Profile
			var err error
			r.Guard("panic", func() { p, err = mk().ReadProfile() })
			cs := map[string]interface{}{"header_hex": hex.EncodeToString(h), "pattern": what, "reader": ri}
			if ref.Signature != 0x61637370 {
				if err == nil {
					r.Violate("signature-accepted", fmt.Sprintf("header without the acsp signature (bytes 36-39 = %#08x) was accepted [%s]", ref.Signature, what), cs, nil)
				}
				continue
			}
			if err != nil || p == nil {
				r.Violate("rejected", fmt.Sprintf("valid header rejected: %v [%s]", err, what), cs, nil)
				continue
			}
			if d := cmpHeader(p.Header, ref); d != "" {
				field := d
				if i := bytes.IndexByte([]byte(d), ' '); i > 0 {
					field = d[:i]
				}
				r.Violate("field/"+field, fmt.Sprintf("%s [%s]", d, what), cs, nil)
			}
		}
	}
	base := func(fill byte) []byte {
		h := bytes.Repeat([]byte{fill}, 128)
		copy(h[36:], "acsp")
		return h
	}
	// a background with a valid date so that CreatedAt is compared too
	dated := func(fill byte) []byte {
		h := base(fill)
		copy(h[24:], []byte{0x07, 0xE4, 0, 2, 0, 29, 0, 23, 0, 59, 0, 58}) // 2020-02-29 23:59:58
		return h
	}

	try(base(0), "all zero")
	try(base(0xFF), "all ones")
	try(dated(0), "zero + valid date")
	try(dated(0xFF), "ones + valid date")
	for bit := 0; bit < 1024; bit++ {
		for _, bg := range []string{"zero", "dated-zero", "ones", "dated-ones", "0x5A", "real-v2", "real-v4"} {
			var h []byte
			switch bg {
			case "real-v2":
				h = gen.ICCHeader(2)
			case "real-v4":
				h = gen.ICCHeader(4)
			case "zero":
				h = base(0)
			case "dated-zero":
				h = dated(0)
			case "ones":
				h = base(0xFF)
			case "dated-ones":
				h = dated(0xFF)
			default:
				h = dated(0x5A)
			}
			h[bit/8] ^= 0x80 >> uint(bit%8)
			try(h, fmt.Sprintf("bit %d flipped on %s background", bit, bg))
		}
	}
	for pos := 0; pos < 128; pos++ {
		for v := 0; v < 256; v++ {
			for _, fill := range []byte{0, 0xFF, 0x5A} {
				h := dated(fill)
				h[pos] = byte(v)
				try(h, fmt.Sprintf("byte %d = %#02x on %#02x background", pos, v, fill))
			}
			hr := gen.ICCHeader(4)
			hr[pos] = byte(v)
			try(hr, fmt.Sprintf("byte %d = %#02x on a realistic v4 header", pos, v))
		}
	}
	if tier == "thorough" {
		// every value of every aligned 16-bit half-word on two backgrounds
		for hw := 0; hw < 64; hw++ {
			for v := 0; v < 65536; v++ {
				for _, fill := range []byte{0, 0xA5} {
					h := dated(fill)
					h[2*hw], h[2*hw+1] = byte(v>>8), byte(v)
					try(h, fmt.Sprintf("half-word %d = %#04x on %#02x background", hw, v, fill))
				}
			}
		}
	}
	// version bytes and their rendering
	for v := 0; v < 65536; v++ {
		h := dated(0)
		h[8], h[9] = byte(v>>8), byte(v)
		try(h, fmt.Sprintf("version bytes %#04x", v))
		want := fmt.Sprintf("%d.%d.%d", v>>8, (v>>4)&0xF, v&0xF)
		if got := (icc.Version{Major: byte(v >> 8), MinorAndRev: byte(v)}).String(); got != want {
			r.Violate("version-string", fmt.Sprintf("Version{%#02x,%#02x}.String() = %q, want %q", v>>8, v&0xFF, got, want), map[string]interface{}{"version": v}, nil)
		}
		r.Eval(1)
	}
	// date-time components
	type dt struct{ y, mo, d, h, mi, s int }
	put := func(b []byte, t dt) {
		for i, v := range []int{t.y, t.mo, t.d, t.h, t.mi, t.s} {
			b[24+2*i], b[25+2*i] = byte(v>>8), byte(v)
		}
	}
	for _, hold := range []dt{{1998, 2, 9, 6, 49, 0}, {2024, 12, 28, 23, 59, 59}} {
		for _, y := range []int{1, 2, 99, 100, 255, 256, 257, 1900, 1970, 1999, 2000, 2038, 2100, 4095, 4096, 9999} {
			t := hold
			t.y = y
			h := base(0)
			put(h, t)
			try(h, fmt.Sprintf("date %+v", t))
		}
		for mo := 1; mo <= 12; mo++ {
			for d := 1; d <= 31; d++ {
				t := hold
				t.mo, t.d = mo, d
				h := base(0x11)
				put(h, t)
				try(h, fmt.Sprintf("date %+v", t)) // invalid days (e.g. 31 April) still exercise the other fields
			}
		}
		for hh := 0; hh < 24; hh++ {
			t := hold
			t.h = hh
			h := base(0)
			put(h, t)
			try(h, fmt.Sprintf("date %+v", t))
		}
		for m := 0; m < 60; m++ {
			t := hold
			t.mi, t.s = m, 59-m
			h := base(0)
			put(h, t)
			try(h, fmt.Sprintf("date %+v", t))
		}
	}
	// flags
	for c := 0; c < 16; c++ {
		var f uint32
		for i, b := range []uint{0, 1, 30, 31} {
			if c&(1<<uint(i)) != 0 {
				f |= 1 << b
			}
		}
		for _, fill := range []byte{0, 0xFF} {
			h := dated(fill)
			h[44], h[45], h[46], h[47] = byte(f>>24), byte(f>>16), byte(f>>8), byte(f)
			try(h, fmt.Sprintf("flags %#08x", f))
		}
	}
	// signature damage
	for i := 36; i < 40; i++ {
		for v := 0; v < 256; v++ {
			h := dated(0)
			if h[i] == byte(v) {
				continue
			}
			h[i] = byte(v)
			try(h, fmt.Sprintf("signature byte %d = %#02x", i, v))
		}
	}
	// operation sequences: a header read must not depend on what was read before
	depth := 4
	if tier == "thorough" {
		depth = 5
	}
	iccSequences(r, depth, "sequence", true, false)
	r.DistinctN(int64(len(seen)))
	h := dated(0)
	h[47] = 1
	h[9] = 0x27
	r.Sample(map[string]interface{}{"header_hex": hex.EncodeToString(h), "reference": fmt.Sprintf("%+v", refs.DecodeHeader(h))})
	if tier == "thorough" {
		// configuration: 32-bit platform (the quick tier of this check, built for GOARCH=386)
		subRunArch(r, "C16", "386")
	}
	r.Finish()
}

// dribble delivers at most n bytes per Read call.
type dribble struct {
	r io.Reader
	n int
}

func (d *dribble) Read(p []byte) (int, error) {
	if len(p) > d.n {
		p = p[:d.n]
	}
	return d.r.Read(p)
}
