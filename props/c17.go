package props

import (
	"bufio"
	"bytes"
	"encoding/hex"
	"fmt"
	"strings"

	"github.com/mandykoh/prism/meta/icc"

	"verif/engine/ev"
	"verif/gen"
)

// permutations of 0..n-1 in lexicographic order.
func perms(n int) [][]int {
	var out [][]int
	p := make([]int, n)
	for i := range p {
		p[i] = i
	}
	var rec func(k int)
	rec = func(k int) {
		if k == n {
			out = append(out, append([]int(nil), p...))
			return
		}
		for i := k; i < n; i++ {
			p[k], p[i] = p[i], p[k]
			rec(k + 1)
			p[k], p[i] = p[i], p[k]
		}
	}
	rec(0)
	return out
}

func fillerBlock(i int) []byte {
	b := []byte("text\x00\x00\x00\x00")
	for k := 0; k < 3+i%9; k++ {
		b = append(b, byte('a'+(i+k)%26))
	}
	return append(b, 0)
}

func fillerSig(i int) uint32 {
	return gen.Sig(fmt.Sprintf("t%03d", i))
}

func textOfLen(class string, n int) string {
	var sb strings.Builder
	for i := 0; i < n; i++ {
		switch class {
		case "ascii":
			sb.WriteByte(byte(0x20 + (i*7)%0x5F))
		case "bmp":
			sb.WriteRune([]rune{'é', 'ü', '色', 'Ω', 'ж', '한', 'A', ' ', '�', ' '}[i%10])
		default: // surrogate pairs interleaved with BMP
			sb.WriteRune([]rune{'😀', 'x', '𝒳', '𐍈', '色', '\U0010FFFF', '\U00010000'}[i%7])
		}
	}
	return sb.String()
}

// C17: the description is found via the tag table and decoded as the right string.
func C17(tier string) {
	r := ev.Begin("C17", tier, "exploration")
	r.NotExhaustive()
	r.Rule("profiles from a layout grammar: tag counts 0..64 with the description at every table position (<= 8 tags) or first/middle/last; every order of the data blocks for <= 5 tags, every 0-3 byte padding pattern for <= 4 tags, blocks shared by 2-3 tags; v2 descriptions of every length 0..300 and 1999/2000 with printable, DEL and high-bit bytes; v4 mluc with 1..6 records in every record order (<= 5), 40..600 records, tables of 65..5000 tags, string placements {table order, reverse, gapped, shared, overlapping}, record sizes 12/16, 'en' present at every position / absent / twice with different countries, strings of length 0..40 and 2000 over ASCII, BMP and surrogate-pair alphabets; distinct = distinct profile byte strings; plus every sequence of up to 4 (thorough 5) operations {Read(P1..P5), Description(any profile object read earlier)}, each description compared with that of its own profile (profiles of equal size and equal ID, a tag that does not parse)")
	r.Assume("expected description: ASCII bytes before the NUL (v2); for mluc any string of an 'en' record when one exists, otherwise any record's string, each decoded by unicode/utf16 from the record's declared offset and length")
	seen := map[string]bool{}

	try := func(key string, data []byte, oneOf []string, what string) {
		if !seen[string(data)] {
			seen[string(data)] = true
		}
		r.Eval(1)
		cs := func() interface{} {
			h := data
			if len(h) > 4096 {
				h = h[:4096]
			}
			return map[string]interface{}{"profile_hex_first_4096": hex.EncodeToString(h), "len": len(data), "layout": what, "acceptable": oneOf}
		}
		var p *icc.Profile
		var err error
		r.Guard(key+"/panic", func() { p, err = icc.NewProfileReader(bytes.NewReader(data)).ReadProfile() })
		if err != nil || p == nil {
			r.Violate(key+"/read", fmt.Sprintf("ReadProfile failed on a well-formed profile: %v [%s]", err, what), cs(), nil)
			return
		}
		// the same profile from a buffered reader over a source that hands out at most
		// 1000 bytes per call (a file or pipe behind bufio): same tags, same description
		{
			var p2 *icc.Profile
			var err2 error
			r.Guard(key+"/panic", func() {
				p2, err2 = icc.NewProfileReader(bufio.NewReader(&dribble{r: bytes.NewReader(data), n: 1000})).ReadProfile()
			})
			if err2 != nil || p2 == nil {
				r.Violate(key+"/read-buffered", fmt.Sprintf("ReadProfile failed on a well-formed profile read through bufio over 1000-byte deliveries: %v [%s]", err2, what), cs(), nil)
				return
			}
			var d1, d2 string
			var e1, e2 error
			r.Guard(key+"/panic", func() {
				d1, e1 = p.Description()
				d2, e2 = p2.Description()
			})
			if oneOf != nil && len(oneOf) == 1 && (d1 != d2 || (e1 == nil) != (e2 == nil)) {
				r.Violate(key+"/description-buffered", fmt.Sprintf("Description differs when the profile is read through bufio over 1000-byte deliveries: %q (%v) vs %q (%v) [%s]", d2, e2, d1, e1, what), cs(), nil)
			}
		}
		if oneOf == nil {
			return
		}
		// Description re-parses the tag on every call and, where the
		// specification leaves a choice, picks through Go map iteration: every
		// call must return an acceptable string, so it is called repeatedly
		// (64 times where a wrong answer competes with a right one by chance).
		reps := 4
		if strings.Contains(key, "empty-en") {
			reps = 64
		}
		for rep := 0; rep < reps; rep++ {
			var d string
			r.Guard(key+"/panic", func() { d, err = p.Description() })
			if err != nil {
				r.Violate(key+"/description-error", fmt.Sprintf("Description failed on a well-formed profile: %v [%s]", err, what), cs(), nil)
				return
			}
			ok := false
			for _, w := range oneOf {
				if d == w {
					ok = true
				}
			}
			if !ok {
				r.Violate(key+"/description", fmt.Sprintf("Description = %q, acceptable %q [%s]", trunc(d), truncs(oneOf), what), cs(), nil)
				return
			}
		}
	}

	descBlocks := func(name string) map[string][]byte {
		m, _ := gen.Mluc([]gen.MlucRecord{{Lang: "en", Country: "US", Text: name}}, 12, gen.MlucTableOrder)
		return map[string][]byte{"v2": gen.DescV2([]byte(name)), "v4": m}
	}

	// 1. tag counts and description position
	for n := 0; n <= 64; n++ {
		if n == 0 {
			try("layout/count0", gen.ICCLayout{Major: 4}.Build(), nil, "no tags")
			// the header's class, colour space and connection space fields do not
			// decide whether the description can be read: every device class (a
			// device link carries a device colour space in the PCS field) x a few
			// colour spaces in both fields
			for _, class := range []string{"scnr", "mntr", "prtr", "link", "spac", "abst", "nmcl"} {
				for _, cspace := range []string{"RGB ", "CMYK", "GRAY", "Lab ", "XYZ ", "6CLR"} {
					for _, pcs := range []string{"XYZ ", "Lab ", "CMYK", "RGB ", "GRAY"} {
						if class != "link" && pcs != "XYZ " && pcs != "Lab " {
							continue
						}
						name := "Class " + class + " " + cspace + "->" + pcs
						for ver, blk := range descBlocks(name) {
							l := gen.ICCLayout{Major: map[string]byte{"v2": 2, "v4": 4}[ver], Tags: []gen.ICCTag{{Sig: gen.Sig("desc"), Block: 0}}, Blocks: [][]byte{blk}}
							data := l.Build()
							copy(data[12:], class)
							copy(data[16:], cspace)
							copy(data[20:], pcs)
							try("layout/class-and-spaces", data, []string{name}, fmt.Sprintf("%s profile, device class %q, data colour space %q, PCS field %q", ver, class, cspace, pcs))
						}
					}
				}
			}
			continue
		}
		var positions []int
		if n <= 8 {
			for p := 0; p < n; p++ {
				positions = append(positions, p)
			}
		} else {
			positions = []int{0, n / 2, n - 1}
		}
		for _, pos := range positions {
			name := fmt.Sprintf("Profile %d at %d", n, pos)
			for ver, blk := range descBlocks(name) {
				l := gen.ICCLayout{Major: map[string]byte{"v2": 2, "v4": 4}[ver]}
				for i := 0; i < n; i++ {
					if i == pos {
						l.Tags = append(l.Tags, gen.ICCTag{Sig: gen.Sig("desc"), Block: i})
						l.Blocks = append(l.Blocks, blk)
					} else {
						l.Tags = append(l.Tags, gen.ICCTag{Sig: fillerSig(i), Block: i})
						l.Blocks = append(l.Blocks, fillerBlock(i))
					}
				}
				try("layout/count", l.Build(), []string{name}, fmt.Sprintf("%d tags, %s desc at table position %d, blocks in table order", n, ver, pos))
				// 4-byte aligned variant
				l.PadBefore = make([]int, n)
				off := 132 + 12*n
				for i := 0; i < n; i++ {
					l.PadBefore[i] = (4 - off%4) % 4
					off += l.PadBefore[i] + len(l.Blocks[i])
				}
				try("layout/aligned", l.Build(), []string{name}, fmt.Sprintf("%d tags, %s desc at table position %d, blocks 4-byte aligned", n, ver, pos))
			}
		}
	}

	// 1b. larger tables: counts around and beyond typical small-integer limits
	for _, n := range []int{65, 100, 127, 128, 129, 200, 255, 256, 257, 341, 1000, 1365, 5000} {
		for _, pos := range []int{0, n / 3, n - 1} {
			name := fmt.Sprintf("Large table %d/%d", pos, n)
			for ver, blk := range descBlocks(name) {
				l := gen.ICCLayout{Major: map[string]byte{"v2": 2, "v4": 4}[ver]}
				l.Blocks = [][]byte{fillerBlock(1), blk, fillerBlock(7)}
				for i := 0; i < n; i++ {
					if i == pos {
						l.Tags = append(l.Tags, gen.ICCTag{Sig: gen.Sig("desc"), Block: 1})
					} else {
						l.Tags = append(l.Tags, gen.ICCTag{Sig: uint32(0x41000000 + i), Block: (i % 2) * 2})
					}
				}
				try("layout/large-table", l.Build(), []string{name}, fmt.Sprintf("%d tags (fillers share two blocks), %s desc at table position %d", n, ver, pos))
			}
		}
	}

	// 2. block orders and padding
	for k := 1; k <= 5; k++ {
		orders := perms(k)
		for pos := 0; pos < k; pos++ {
			name := fmt.Sprintf("Order test %d/%d", pos, k)
			for ver, blk := range descBlocks(name) {
				base := gen.ICCLayout{Major: map[string]byte{"v2": 2, "v4": 4}[ver]}
				for i := 0; i < k; i++ {
					if i == pos {
						base.Tags = append(base.Tags, gen.ICCTag{Sig: gen.Sig("desc"), Block: i})
						base.Blocks = append(base.Blocks, blk)
					} else {
						base.Tags = append(base.Tags, gen.ICCTag{Sig: fillerSig(i), Block: i})
						base.Blocks = append(base.Blocks, fillerBlock(i))
					}
				}
				for _, ord := range orders {
					npad := 1
					if k <= 4 {
						npad = ipow(4, k)
					}
					if tier != "thorough" && k == 4 {
						npad = 16
					}
					for pi := 0; pi < npad; pi++ {
						l := base
						l.BlockOrder = ord
						l.PadBefore = make([]int, k)
						q := pi
						for i := 0; i < k; i++ {
							l.PadBefore[i] = q % 4
							q /= 4
						}
						if k == 4 && tier != "thorough" {
							l.PadBefore = []int{pi % 4, (pi / 4) % 4, (pi + 1) % 4, (pi / 2) % 4}
						}
						try("layout/order", l.Build(), []string{name}, fmt.Sprintf("%d tags, %s desc at table position %d, file order of blocks %v, padding before blocks %v", k, ver, pos, ord, l.PadBefore))
					}
				}
			}
		}
	}

	// 3. shared blocks
	for ver, blk := range descBlocks("Shared block") {
		maj := map[string]byte{"v2": 2, "v4": 4}[ver]
		for _, sharers := range [][]string{{"desc", "dmdd"}, {"dmnd", "desc", "dmdd"}, {"dmnd", "dmdd", "desc"}} {
			for _, descFirst := range []bool{true, false} {
				l := gen.ICCLayout{Major: maj}
				l.Blocks = [][]byte{fillerBlock(1), blk, fillerBlock(2)}
				if descFirst {
					l.BlockOrder = []int{1, 0, 2}
				}
				l.Tags = append(l.Tags, gen.ICCTag{Sig: gen.Sig("cprt"), Block: 0})
				for _, s := range sharers {
					l.Tags = append(l.Tags, gen.ICCTag{Sig: gen.Sig(s), Block: 1})
				}
				l.Tags = append(l.Tags, gen.ICCTag{Sig: gen.Sig("wtpt"), Block: 2}, gen.ICCTag{Sig: gen.Sig("bkpt"), Block: 2})
				try("layout/shared", l.Build(), []string{"Shared block"}, fmt.Sprintf("%s desc block shared by tags %v, two fillers sharing another block", ver, sharers))
			}
		}
	}

	// 4. v2 description lengths and contents
	lens := []int{}
	for n := 0; n <= 300; n++ {
		lens = append(lens, n)
	}
	lens = append(lens, 1999, 2000, 4095, 4096, 4097, 65535, 65536, 65537, 100003)
	for _, n := range lens {
		for variant := 0; variant < 3; variant++ {
			a := make([]byte, n)
			for i := range a {
				switch variant {
				case 0:
					a[i] = byte(0x20 + (i*13)%0x5F)
				case 1:
					a[i] = byte(0x7F + (i*3)%0x81) // DEL and high-bit bytes
				default:
					a[i] = byte(1 + (i*29)%255) // everything but NUL
				}
			}
			l := gen.ICCLayout{Major: 2, Tags: []gen.ICCTag{{Sig: gen.Sig("cprt"), Block: 0}, {Sig: gen.Sig("desc"), Block: 1}}, Blocks: [][]byte{fillerBlock(0), gen.DescV2(a)}}
			try("v2/length", l.Build(), []string{string(a)}, fmt.Sprintf("v2 description of %d bytes, content variant %d", n, variant))
		}
	}

	// 5. mluc
	mlucProfile := func(tag []byte) []byte {
		return gen.ICCLayout{Major: 4, Tags: []gen.ICCTag{{Sig: gen.Sig("cprt"), Block: 0}, {Sig: gen.Sig("desc"), Block: 1}, {Sig: gen.Sig("wtpt"), Block: 2}},
			Blocks: [][]byte{fillerBlock(0), tag, fillerBlock(2)}, PadBefore: []int{0, 0, 2}}.Build()
	}
	expectFor := func(recs []gen.MlucRecord, texts []string) []string {
		var en, all []string
		for i, rc := range recs {
			all = append(all, texts[i])
			if rc.Lang == "en" {
				en = append(en, texts[i])
			}
		}
		if len(en) > 0 {
			return en
		}
		return all
	}
	pool := []gen.MlucRecord{
		{Lang: "en", Country: "US", Text: "English name"},
		{Lang: "fr", Country: "FR", Text: "Nom français é"},
		{Lang: "ja", Country: "JP", Text: "色プロファイル"},
		{Lang: "de", Country: "DE", Text: "Weiter Farbraum 😀 𝒳"},
		{Lang: "es", Country: "ES", Text: "Gama amplia"},
		{Lang: "it", Country: "IT", Text: "Gamma estesa"},
	}
	places := []gen.MlucPlacement{gen.MlucTableOrder, gen.MlucReverse, gen.MlucGapped, gen.MlucShared, gen.MlucOverlap}
	placeName := []string{"table order", "reverse", "gapped", "shared", "overlapping"}
	for n := 1; n <= 6; n++ {
		orders := perms(n)
		if n == 6 {
			orders = [][]int{{0, 1, 2, 3, 4, 5}, {5, 4, 3, 2, 1, 0}, {1, 2, 0, 4, 5, 3}, {3, 5, 1, 0, 2, 4}}
		}
		for _, ord := range orders {
			for _, enMode := range []string{"enUS", "enGB", "absent"} {
				recs := make([]gen.MlucRecord, n)
				for i, oi := range ord {
					recs[i] = pool[oi]
					if recs[i].Lang == "en" {
						switch enMode {
						case "enGB":
							recs[i].Country = "GB"
						case "absent":
							recs[i] = gen.MlucRecord{Lang: "nl", Country: "NL", Text: "Breed kleurbereik"}
						}
					}
				}
				for pi, pl := range places {
					for _, rs := range []int{12, 16} {
						tag, texts := gen.Mluc(recs, rs, pl)
						try("mluc/records", mlucProfile(tag), expectFor(recs, texts),
							fmt.Sprintf("mluc %d records %v, en=%s, strings %s, record size %d", n, langs(recs), enMode, placeName[pi], rs))
					}
				}
			}
		}
	}
	// two English records with different countries, among others
	for _, ord := range perms(4) {
		base := []gen.MlucRecord{{Lang: "en", Country: "US", Text: "American"}, {Lang: "en", Country: "GB", Text: "British"}, pool[1], pool[2]}
		recs := make([]gen.MlucRecord, 4)
		for i, oi := range ord {
			recs[i] = base[oi]
		}
		for pi, pl := range places {
			tag, texts := gen.Mluc(recs, 12, pl)
			try("mluc/two-en", mlucProfile(tag), expectFor(recs, texts), fmt.Sprintf("mluc with enUS and enGB %v, strings %s", langs(recs), placeName[pi]))
		}
	}
	// 40 and more records
	for _, nrec := range []int{40, 41, 100, 255, 256, 257, 600} {
		for _, enAt := range []int{-1, 0, 17, nrec - 1} {
			var recs []gen.MlucRecord
			for i := 0; i < nrec; i++ {
				l := string([]byte{byte('a' + (i/26)%26), byte('a' + i%26)})
				if l == "en" {
					l = "zz"
				}
				recs = append(recs, gen.MlucRecord{Lang: l, Country: string([]byte{byte('A' + (i/676)%26), 'X'}), Text: fmt.Sprintf("Name %02d ü", i)})
			}
			if enAt >= 0 {
				recs[enAt] = gen.MlucRecord{Lang: "en", Country: "AU", Text: "Forty records"}
			}
			for pi, pl := range places {
				tag, texts := gen.Mluc(recs, 12, pl)
				try("mluc/40", mlucProfile(tag), expectFor(recs, texts), fmt.Sprintf("mluc %d records, en at %d, strings %s", nrec, enAt, placeName[pi]))
			}
		}
	}
	// string lengths and alphabets
	lengths := []int{}
	for n := 0; n <= 40; n++ {
		lengths = append(lengths, n)
	}
	lengths = append(lengths, 127, 128, 255, 256, 257, 2000, 32767, 32768, 50021)
	for _, class := range []string{"ascii", "bmp", "surrogates"} {
		for _, n := range lengths {
			txt := textOfLen(class, n)
			for _, lang := range []string{"en", "sv"} {
				if n == 0 {
					continue // handled below (empty strings)
				}
				tag, texts := gen.Mluc([]gen.MlucRecord{{Lang: lang, Country: "SE", Text: txt}}, 12, gen.MlucTableOrder)
				try("mluc/length", mlucProfile(tag), texts, fmt.Sprintf("mluc single %s record, %d %s characters", lang, n, class))
				// with a second record in front
				recs := []gen.MlucRecord{{Lang: "fi", Country: "FI", Text: "Laaja"}, {Lang: lang, Country: "SE", Text: txt}}
				tag, texts = gen.Mluc(recs, 12, gen.MlucReverse)
				try("mluc/length", mlucProfile(tag), expectFor(recs, texts), fmt.Sprintf("mluc fi + %s record, %d %s characters, reverse placement", lang, n, class))
			}
		}
	}
	// long strings with astral characters at every alignment (a decoder working
	// in blocks must not split a surrogate pair wherever the block boundary falls)
	for k := 0; k <= 13; k++ {
		for _, n := range []int{300, 700, 1100, 2600, 5200} {
			txt := strings.Repeat("a", k) + textOfLen("surrogates", n)
			tag, texts := gen.Mluc([]gen.MlucRecord{{Lang: "en", Country: "US", Text: txt}}, 12, gen.MlucTableOrder)
			try("mluc/alignment", mlucProfile(tag), texts, fmt.Sprintf("mluc en record: %d ASCII characters then %d characters mixing astral and BMP", k, n))
		}
	}
	// notable code points first, in the middle and last
	for _, cp := range []rune{0xFEFF, 0xFFFE, 0xFFFF, 0xFFFD, 0x00A0, 0x00AD, 0x200B, 0x200E, 0x202E, 0x2028, 0x2029, 0x0301, 0x3000, 0xD7FF, 0xE000, 0xF8FF, 0x10000, 0x10FFFF, 0x1F600, 0x0001, 0x007F, 0x0080, 0x009F, 0x00FF, 0x0100, 0x0020, 0x0009, 0x000A, 0x000D} {
		for _, where := range []string{"first", "middle", "last", "only", "twice"} {
			var txt string
			switch where {
			case "first":
				txt = string(cp) + "Wide Gamut"
			case "middle":
				txt = "Wide" + string(cp) + "Gamut"
			case "last":
				txt = "Wide Gamut" + string(cp)
			case "only":
				txt = string(cp)
			default:
				txt = string(cp) + string(cp) + "x"
			}
			for _, lang := range []string{"en", "fi"} {
				tag, texts := gen.Mluc([]gen.MlucRecord{{Lang: lang, Country: "XX", Text: txt}}, 12, gen.MlucTableOrder)
				try("mluc/code-point", mlucProfile(tag), texts, fmt.Sprintf("mluc %s record with U+%04X %s", lang, cp, where))
			}
		}
	}
	// empty strings
	{
		tag, texts := gen.Mluc([]gen.MlucRecord{{Lang: "en", Country: "US", Text: ""}}, 12, gen.MlucTableOrder)
		try("mluc/empty-only", mlucProfile(tag), texts, "mluc single en record with an empty string")
		tag, texts = gen.Mluc([]gen.MlucRecord{{Lang: "sv", Country: "SE", Text: ""}}, 12, gen.MlucTableOrder)
		try("mluc/empty-only", mlucProfile(tag), texts, "mluc single sv record with an empty string")
		recs := []gen.MlucRecord{{Lang: "fr", Country: "FR", Text: "Nom"}, {Lang: "en", Country: "US", Text: ""}}
		tag, texts = gen.Mluc(recs, 12, gen.MlucTableOrder)
		try("mluc/empty-en-with-others", mlucProfile(tag), expectFor(recs, texts), "mluc with an fr record and an en record whose string is empty")
	}

	depth := 4
	if tier == "thorough" {
		depth = 5
	}
	iccSequences(r, depth, "sequence", false, true)
	r.DistinctN(int64(len(seen)))
	tag, texts := gen.Mluc([]gen.MlucRecord{pool[1], pool[0], pool[2]}, 16, gen.MlucReverse)
	r.Sample(map[string]interface{}{"layout": "mluc fr,en,ja reverse placement record size 16", "profile_hex": hex.EncodeToString(mlucProfile(tag)), "record_strings": texts})
	if tier == "thorough" {
		// configuration: 32-bit platform (the quick tier of this check, built for GOARCH=386)
		subRunArch(r, "C17", "386")
	}
	r.Finish()
}

func langs(recs []gen.MlucRecord) []string {
	var o []string
	for _, r := range recs {
		o = append(o, r.Lang+r.Country)
	}
	return o
}

func trunc(s string) string {
	if len(s) > 80 {
		return s[:80] + "..."
	}
	return s
}

func truncs(ss []string) []string {
	var o []string
	for _, s := range ss {
		o = append(o, trunc(s))
	}
	return o
}
