package props

import (
	"bytes"
	"fmt"
	"io"
	"sync"
	"sync/atomic"

	"verif/engine/envx"
	"verif/engine/ev"
	"verif/gen"
)

// c18Files builds well-formed files whose pixel payload is a virtual tail of
// `tail` zero bytes (declared in the container where the format has a length).
func c18Files(tail int) []Case {
	var out []Case
	bigText := func(n int) gen.PNGChunk {
		return gen.PNGChunk{Type: "tEXt", Data: append([]byte("Pad\x00"), bytes.Repeat([]byte{'.'}, n)...)}
	}
	prof := testProfile(3000, "lcg")
	iccp := gen.PNGChunk{Type: "iCCP", Data: gen.ICCPChunk("Caf\xe9 RGB", prof, 6)}
	for _, v := range []struct {
		name string
		pre  []gen.PNGChunk
		at   int
	}{
		{"png no ICC", []gen.PNGChunk{pngAncillary("gAMA"), pngAncillary("pHYs")}, -1},
		{"png ICC only", []gen.PNGChunk{iccp}, 0},
		{"png ICC then 100 KiB of text", []gen.PNGChunk{iccp, bigText(34000), bigText(34000), bigText(34000)}, 0},
		{"png 100 KiB of text then ICC", []gen.PNGChunk{bigText(34000), bigText(34000), bigText(34000), iccp}, 3},
		{"png ICC between ancillary", []gen.PNGChunk{pngAncillary("sRGB"), iccp, pngAncillary("tIME"), bigText(70000)}, 1},
		{"png large ICC", []gen.PNGChunk{{Type: "iCCP", Data: gen.ICCPChunk("big", testProfile(70000, "lcg"), 6)}}, 100},
	} {
		spec := gen.PNGSpec{W: 4000, H: 3000, BitDepth: 8, ColorType: 6, Pre: v.pre, IDATDeclared: maxInt(tail, 1)}
		var p []byte
		if v.at >= 0 {
			p = prof
		}
		if v.at == 100 {
			v.at, p = 0, testProfile(70000, "lcg")
		}
		d, i := spec.Build(p, v.at)
		out = append(out, Case{v.name, d, i})
	}
	app1 := func(n int) gen.JPEGSeg {
		return gen.JPEGSeg{Marker: 0xE1, Data: append([]byte("http://ns.adobe.com/xmp/extension/\x00"), bytes.Repeat([]byte{'x'}, n)...)}
	}
	p3 := testProfile(900, "lcg")
	c1, c2, c3 := gen.ICCSeg(1, 3, p3[:300]), gen.ICCSeg(2, 3, p3[300:500]), gen.ICCSeg(3, 3, p3[500:])
	big := []gen.JPEGSeg{app1(30000), app1(30000), app1(30000)}
	cat := func(a ...[]gen.JPEGSeg) []gen.JPEGSeg {
		var o []gen.JPEGSeg
		for _, x := range a {
			o = append(o, x...)
		}
		return o
	}
	jv := []struct {
		name          string
		before, after []gen.JPEGSeg
	}{
		{"jpeg no ICC", []gen.JPEGSeg{jpegSegByName("APP0"), jpegSegByName("DQT")}, []gen.JPEGSeg{jpegSegByName("DHT")}},
		{"jpeg no ICC, 90 KiB of APP1 before SOF", cat([]gen.JPEGSeg{jpegSegByName("APP0")}, big), nil},
		{"jpeg ICC before SOF", []gen.JPEGSeg{jpegSegByName("APP0"), c1, c2, c3}, []gen.JPEGSeg{jpegSegByName("DHT")}},
		{"jpeg ICC before SOF then 90 KiB of APP1 after SOF", []gen.JPEGSeg{c1, c2, c3}, big},
		{"jpeg 90 KiB of APP1 then ICC then SOF", cat(big, []gen.JPEGSeg{c1, c2, c3}), nil},
	}
	for _, ord := range perms(3) {
		cs := []gen.JPEGSeg{c1, c2, c3}
		o := []gen.JPEGSeg{cs[ord[0]], cs[ord[1]], cs[ord[2]]}
		jv = append(jv, struct {
			name          string
			before, after []gen.JPEGSeg
		}{fmt.Sprintf("jpeg SOF then ICC chunks in order %v then 90 KiB of APP1", ord), []gen.JPEGSeg{jpegSegByName("APP0")}, cat(o, big)})
		jv = append(jv, struct {
			name          string
			before, after []gen.JPEGSeg
		}{fmt.Sprintf("jpeg ICC chunks %v split around SOF then 90 KiB of APP1", ord), o[:1], cat(o[1:], big)})
	}
	for _, v := range jv {
		spec := gen.JPEGSpec{SOFMarker: 0xC2, Precision: 8, W: 4000, H: 3000, Comps: jpegComps(3, []byte{2, 2, 1, 1, 1, 1}), Before: v.before, After: v.after, NoEOI: true}
		d, evs := spec.Build()
		out = append(out, Case{v.name, d, gen.JPEGModel(spec, evs)})
	}
	d, i := gen.WebPVP8(4000, 3000, 0, 0, nil, 10+tail)
	out = append(out, Case{"webp VP8", d, i})
	d, i = gen.WebPVP8L(3999, 2999, false, nil, 5+tail)
	out = append(out, Case{"webp VP8L", d, i})
	inner, _ := gen.WebPVP8(4000, 3000, 0, 0, nil, 10+tail)
	d, i = gen.WebPVP8X(0, 3999, 2999, nil, inner[12:])
	out = append(out, Case{"webp VP8X no ICC", d, i})
	d, i = gen.WebPVP8X(0x20, 3999, 2999, prof, inner[12:])
	out = append(out, Case{"webp VP8X+ICCP", d, i})
	d, i = gen.WebPVP8X(0x20, 3999, 2999, testProfile(200001, "lcg"), inner[12:])
	out = append(out, Case{"webp VP8X+ICCP 200001 bytes", d, i})
	// extended files whose pixel data does not start with a VP8/VP8L chunk:
	// lossy with a separate alpha plane, and an animation (frames in ANMF chunks)
	alph := gen.RiffChunk("ALPH", testProfile(70000, "lcg"))
	d, i = gen.WebPVP8X(0x10, 3999, 2999, nil, append(append([]byte{}, alph...), inner[12:]...))
	out = append(out, Case{"webp VP8X alpha, no ICC: ALPH 70,000 bytes then VP8", d, i})
	d, i = gen.WebPVP8X(0x30, 3999, 2999, prof, append(append([]byte{}, alph...), inner[12:]...))
	out = append(out, Case{"webp VP8X alpha + ICCP: ALPH 70,000 bytes then VP8", d, i})
	anim := gen.RiffChunk("ANIM", []byte{0, 0, 0, 0, 0, 0})
	frame := append([]byte{0, 0, 0, 0, 0, 0, 0x9e, 0x0f, 0, 0xb6, 0x0b, 0, 40, 0, 0, 0}, gen.RiffChunk("VP8 ", testProfile(50000, "lcg"))...)
	rest := append(append([]byte{}, anim...), gen.RiffChunk("ANMF", frame)...)
	rest = append(rest, gen.RiffChunk("ANMF", frame)...)
	rest = append(rest, inner[12:]...) // declared-large trailing chunk carrying the virtual tail
	d, i = gen.WebPVP8X(0x02, 3999, 2999, nil, rest)
	out = append(out, Case{"webp VP8X animation, no ICC: ANIM, two 50 KB ANMF frames", d, i})
	return out
}

type c18Sample struct {
	File, Loader, Schedule string
	Tail                   int
	Need, Delivered        int64
}

// C18: metadata is read without consuming the image body.
func C18(tier string) {
	r := ev.Begin("C18", tier, "model_checking")
	envxSelfTest(r, "harness")
	if r.NViolations() > 0 {
		r.Finish()
	}
	r.NotExhaustive()
	tails := []int{0, 1, 4095, 4096, 4097, 65536, 1 << 20, 64 << 20}
	if tier == "thorough" {
		tails = append(tails, 2, 3, 8191, 8192, 8193, 65535, 65537, 1<<30)
	}
	r.Rule(fmt.Sprintf("well-formed PNG/JPEG/WebP files built from descriptions (no ICC; ICC before / after / between >64 KiB of other ancillary data; JPEG chunks in every order and split around SOF; iCCP name with a Latin-1 byte) whose pixel payload is a virtual zero tail of %v bytes produced by the counting source; each through the specific loader and autometa under: all at once, uniform 1/7/4096-byte delivery with and without EOF piggy-backed, and every reader-answer sequence with <= 2 deviations (thorough <= 3); every ordered pair of those files loaded one after the other in one process, the first one once and eight times in a row (state learnt from a batch must not make the next load read more); every file at three more sizes (0.1, 0.6, 1.2 MB of pixel data) from sources that also offer Seek and, like *bytes.Reader, ReadAt/ReadByte/WriteTo/Len (all bytes handed out by any method are counted); the repository images likewise (need = what a loader given only that prefix still reports identically, found by bisection); states = choice points, transitions = answers taken", tails))
	r.Assume("need(file) comes from the generator: end of the iCCP chunk or of the IDAT chunk header (PNG); end of the later of SOF / last ICC chunk, else of the SOS header (JPEG); byte 30 / 25 / end of ICCP data (WebP)")
	bound := 2
	if tier == "thorough" {
		bound = 3
	}
	var mu sync.Mutex
	total := envx.Stats{Outcomes: map[string]int{}}
	var worst atomic.Int64
	var sampled atomic.Int32

	type job struct {
		c    Case
		tail int
	}
	var jobs []job
	for _, t := range tails {
		for _, c := range c18Files(t) {
			jobs = append(jobs, job{c, t})
		}
	}
	var next atomic.Int64
	r.Par(ev.Workers(), func(shard, n int) {
		var st envx.Stats
		for {
			ji := int(next.Add(1) - 1)
			if ji >= len(jobs) || r.NViolations() > 20 {
				break
			}
			c, tail := &jobs[ji].c, jobs[ji].tail
			need := int64(c.Info.Need)
			for _, l := range []*loaderFn{loaderFor(c.Info.Format), &loaders[3]} {
				// the file truncated just after the last needed structure gives the same result
				whole, _ := load(l, &envx.Src{Data: c.Data, Tail: int64(minI(tail, 2<<20)), Uniform: 1 << 30})
				cut, _ := load(l, bytes.NewReader(c.Data[:need]))
				st.Executions += 2
				if !whole.equal(cut) {
					r.Violate("truncated-differs/"+l.Name, fmt.Sprintf("%s.Load of %s (tail %d): whole file gives [%s], the file cut after its last needed byte (%d) gives [%s]", l.Name, c.Name, tail, whole, need, cut),
						map[string]interface{}{"file": c.Name, "tail": tail, "need": need, "loader": l.Name}, nil)
				}
				cc := *c
				checkICCOutcome(r, &cc, l, whole, "expected/"+l.Name)
				check := func(src *envx.Src, o outcome, sched string) {
					if src.Delivered > worst.Load() {
						worst.Store(src.Delivered)
					}
					if src.Delivered > need+65536 {
						r.Violate("over-read/"+l.Name, fmt.Sprintf("%s.Load of %s (tail %d): pulled %d bytes from the source; the last needed structure ends at %d, so at most %d may be pulled [schedule %s]", l.Name, c.Name, tail, src.Delivered, need, need+65536, sched),
							map[string]interface{}{"file": c.Name, "tail": tail, "need": need, "loader": l.Name, "delivered": src.Delivered, "schedule": sched}, nil)
					}
					if !src.CutOff && !o.equal(whole) {
						r.Violate("schedule-differs/"+l.Name, fmt.Sprintf("%s.Load of %s (tail %d): [%s] under schedule %s, [%s] all at once", l.Name, c.Name, tail, o, sched, whole), nil, nil)
					}
					if sampled.Add(1) <= 4 {
						r.Sample(c18Sample{c.Name, l.Name, sched, tail, need, src.Delivered})
					}
				}
				// on a tree where this loader already over-reads there is nothing to
				// learn from dragging megabytes through every further schedule
				if r.Seen("over-read/" + l.Name) {
					continue
				}
				for _, sz := range []int{1, 7, 4096, 1 << 30} {
					for _, eof := range []bool{false, true} {
						if sz == 1 && need > 150000 {
							continue
						}
						src := &envx.Src{Data: c.Data, Tail: int64(tail), Uniform: sz, UniformEOF: eof, MaxDeliver: need + 1<<20}
						o, _ := load(l, src)
						st.Executions++
						check(src, o, fmt.Sprintf("uniform %d eof-with-data=%v", sz, eof))
					}
				}
				if r.Seen("over-read/" + l.Name) {
					continue
				}
				envx.Explore(bound, func(prefix []int) (*envx.Src, string) {
					src := &envx.Src{Data: c.Data, Tail: int64(tail), Alpha: envx.Alphabet{Shorts: true, EOFs: true}, Prefix: prefix, MaxTrace: 64, MaxDeliver: need + 1<<20}
					o, _ := load(l, src)
					check(src, o, envx.TraceString(src.Trace))
					return src, o.String()
				}, &st)
			}
			r.Distinct(fmt.Sprintf("%s/%d", c.Name, tail))
		}
		mu.Lock()
		total.Executions += st.Executions
		total.ChoicePts += st.ChoicePts
		total.Transitions += st.Transitions
		for k, v := range st.Outcomes {
			total.Outcomes[k] += v
		}
		mu.Unlock()
	})

	// sequences: every ordered pair of files loaded one after the other in this
	// process (state left by the first load must not make the second read more)
	{
		files := c18Files(1 << 20)
		r.Par(ev.Workers(), func(shard, n int) {
			var execs int64
			for i := shard; i < len(files); i += n {
				for j := range files {
					for _, auto := range []bool{false, true} {
						la, lb := loaderFor(files[i].Info.Format), loaderFor(files[j].Info.Format)
						if auto {
							la, lb = &loaders[3], &loaders[3]
						}
						for _, warm := range []int{1, 8} {
							if r.Seen("over-read-after/" + lb.Name) {
								continue
							}
							for w := 0; w < warm; w++ {
								_, _ = load(la, &envx.Src{Data: files[i].Data, Tail: 1 << 20, Uniform: 1 << 30})
							}
							src := &envx.Src{Data: files[j].Data, Tail: 1 << 20, Uniform: 1 << 30, MaxDeliver: int64(files[j].Info.Need) + 1<<20}
							o, _ := load(lb, src)
							execs += 2
							need := int64(files[j].Info.Need)
							if src.Delivered > need+65536 {
								r.Violate("over-read-after/"+lb.Name, fmt.Sprintf("%s.Load of %s right after loading %s: pulled %d bytes; the last needed structure ends at %d", lb.Name, files[j].Name, files[i].Name, src.Delivered, need),
									map[string]interface{}{"first": files[i].Name, "second": files[j].Name, "delivered": src.Delivered, "need": need}, nil)
							}
							cc := files[j]
							checkICCOutcome(r, &cc, lb, o, "expected-after/"+lb.Name)
						}
					}
				}
			}
			mu.Lock()
			total.Executions += execs
			mu.Unlock()
		})
	}

	// sources with more capabilities than Read: a loader may not use Seek, ReadAt,
	// ReadByte or WriteTo to pull the pixel data either (file sizes on both sides
	// of 1 MiB; everything the source hands out by any method is counted)
	{
		var capExecs atomic.Int64
		type cj struct {
			c    Case
			tail int
		}
		var cjobs []cj
		for _, t := range []int{100000, 600000, 1200000} {
			for _, c := range c18Files(t) {
				if len(c.Data)+t > 4<<20 {
					continue
				}
				cjobs = append(cjobs, cj{c, t})
			}
		}
		r.Par(ev.Workers(), func(shard, n int) {
			for ji := shard; ji < len(cjobs); ji += n {
				c, tail := &cjobs[ji].c, cjobs[ji].tail
				need := int64(c.Info.Need)
				full := append(append([]byte{}, c.Data...), make([]byte, tail)...)
				for _, l := range []*loaderFn{loaderFor(c.Info.Format), &loaders[3]} {
					whole, _ := load(l, bytes.NewReader(full))
					for _, kind := range []string{"ReadSeeker", "bytes.Reader-like"} {
						cs := &countingSeeker{r: bytes.NewReader(full)}
						var src io.Reader = cs
						if kind == "bytes.Reader-like" {
							src = &countingAll{countingSeeker: cs}
						}
						o, _ := load(l, src)
						capExecs.Add(1)
						if cs.delivered > need+65536 && !r.Seen("over-read-capable-source/"+l.Name) {
							r.Violate("over-read-capable-source/"+l.Name, fmt.Sprintf("%s.Load of %s (%d bytes in all) from a %s source: %d bytes were taken from the source (Read, ReadAt, ReadByte, WriteTo together); the last needed structure ends at %d, so at most %d may be taken", l.Name, c.Name, len(full), kind, cs.delivered, need, need+65536),
								map[string]interface{}{"file": c.Name, "tail": tail, "need": need, "loader": l.Name, "source": kind, "delivered": cs.delivered}, nil)
						}
						if !o.equal(whole) {
							r.Violate("capable-source-differs/"+l.Name, fmt.Sprintf("%s.Load of %s from a %s source gives [%s], from a plain reader [%s]", l.Name, c.Name, kind, o, whole), nil, nil)
						}
					}
				}
			}
		})
		mu.Lock()
		total.Executions += capExecs.Load()
		mu.Unlock()
	}

	// repository images: need found by bisection on the prefix length
	for _, c := range repoImages() {
		c := c
		l := loaderFor(c.Info.Format)
		whole, _ := load(l, bytes.NewReader(c.Data))
		lo, hi := 0, len(c.Data)
		for lo < hi {
			mid := (lo + hi) / 2
			o, _ := load(l, bytes.NewReader(c.Data[:mid]))
			if o.equal(whole) {
				hi = mid
			} else {
				lo = mid + 1
			}
		}
		need := int64(lo)
		for _, ll := range []*loaderFn{l, &loaders[3]} {
			for _, sz := range []int{7, 4096, 1 << 30} {
				src := &envx.Src{Data: c.Data, Tail: 1 << 20, Uniform: sz}
				o, _ := load(ll, src)
				total.Executions++
				if src.Delivered > need+65536 || !o.equal(whole) {
					r.Violate("repo-image/"+ll.Name, fmt.Sprintf("%s.Load of %s: pulled %d bytes, the shortest prefix giving the same result is %d bytes; outcome [%s] vs [%s]", ll.Name, c.Name, src.Delivered, need, o, whole), nil, nil)
				}
			}
		}
		r.Distinct(c.Name)
	}

	r.States(total.ChoicePts)
	r.Trans(total.Transitions)
	r.Traces(total.Executions)
	r.Eval(total.Executions)
	r.Set("largest_delivery_observed", worst.Load())
	r.Set("deviation_bound_completed", bound)
	r.Finish()
}

// checkICCOutcome compares an already obtained outcome with the description.
func checkICCOutcome(r *ev.Run, c *Case, l *loaderFn, o outcome, key string) {
	in := &c.Info
	bad := ""
	switch {
	case o.Panic != "":
		bad = "panicked: " + o.Panic
	case o.Err || o.MdNil:
		bad = "failed on a well-formed file (" + o.String() + ")"
	case o.Format != in.Format || o.W != in.W || o.H != in.H || o.Bits != in.Bits:
		bad = fmt.Sprintf("basic metadata %s, expected %s %dx%d/%d", o.String(), in.Format, in.W, in.H, in.Bits)
	case in.HasICC && (o.ICCErr || !bytes.Equal(o.ICC, in.ICC)):
		bad = fmt.Sprintf("embedded profile of %d bytes not returned: %s", len(in.ICC), o.String())
	case !in.HasICC && !in.ICCDamaged && !in.ICCLoose && (!o.ICCNil || o.ICCErr):
		bad = "no embedded profile, got " + o.String()
	}
	if bad != "" {
		r.Violate(key, fmt.Sprintf("%s.Load of %s: %s", l.Name, c.Name, bad), map[string]interface{}{"file": c.Name, "loader": l.Name}, nil)
	}
}

// countingSeeker is an io.ReadSeeker that counts every byte it hands out.
type countingSeeker struct {
	r         *bytes.Reader
	delivered int64
}

func (c *countingSeeker) Read(p []byte) (int, error) {
	n, err := c.r.Read(p)
	c.delivered += int64(n)
	return n, err
}

func (c *countingSeeker) Seek(off int64, whence int) (int64, error) { return c.r.Seek(off, whence) }

// countingAll adds the other methods of *bytes.Reader.
type countingAll struct{ *countingSeeker }

func (c *countingAll) ReadAt(p []byte, off int64) (int, error) {
	n, err := c.r.ReadAt(p, off)
	c.delivered += int64(n)
	return n, err
}

func (c *countingAll) ReadByte() (byte, error) {
	b, err := c.r.ReadByte()
	if err == nil {
		c.delivered++
	}
	return b, err
}

func (c *countingAll) UnreadByte() error { c.delivered--; return c.r.UnreadByte() }

func (c *countingAll) WriteTo(w io.Writer) (int64, error) {
	n, err := c.r.WriteTo(w)
	c.delivered += n
	return n, err
}

func (c *countingAll) Len() int    { return c.r.Len() }
func (c *countingAll) Size() int64 { return c.r.Size() }
