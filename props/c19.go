package props

import (
	"bytes"
	"fmt"
	"io"
	"sync/atomic"

	"verif/engine/envx"
	"verif/engine/ev"
	"verif/gen"
)

// c19Check is the differential oracle: autometa against the first specific
// loader that succeeds on the complete input.
func c19Check(r *ev.Run, name string, data []byte, uniform int, key string) (label string) {
	var want *outcome
	which := "none"
	for li := 0; li < 3; li++ {
		o, _ := load(&loaders[li], bytes.NewReader(data))
		if o.Panic == "" && !o.Err && !o.MdNil {
			want, which = &o, loaders[li].Name
			break
		}
	}
	var src io.Reader = bytes.NewReader(data)
	if uniform > 0 {
		src = &envx.Src{Data: data, Uniform: uniform}
	}
	if uniform < 0 {
		// a seekable reader handed over positioned -uniform bytes into its data:
		// "the stream from its first byte" is what the reader has left
		junk := bytes.Repeat([]byte{0xFF, 0xD8, 0x89, 'P', 'R', 'I', 'F', 'F'}, -uniform/8+1)[:-uniform]
		br := bytes.NewReader(append(junk, data...))
		br.Seek(int64(-uniform), io.SeekStart)
		src = br
	}
	got, st := load(&loaders[3], src)
	cs := func() interface{} {
		return map[string]interface{}{"input": name, "len": len(data), "data_hex_first_65536": hexHead(data, 65536), "bytes_per_call": uniform, "first_succeeding_loader": which}
	}
	switch {
	case got.Panic != "":
		r.Violate(key+"/panic", fmt.Sprintf("autometa.Load panicked on %s: %s", name, got.Panic), cs(), nil)
		return "panic"
	case want == nil:
		if !got.MdNil || !got.Err {
			r.Violate(key+"/should-fail", fmt.Sprintf("no specific loader succeeds on %s, yet autometa.Load returned [%s]", name, got), cs(), nil)
		}
	case !got.equal(*want):
		r.Violate(key+"/differs", fmt.Sprintf("on %s autometa.Load returned [%s], %s.Load returned [%s]", name, got, which, *want), cs(), nil)
	}
	if st == nil {
		r.Violate(key+"/nil-stream", "autometa.Load returned a nil stream on "+name, cs(), nil)
		return which
	}
	rest, err := io.ReadAll(st)
	if err != nil || !bytes.Equal(rest, data) {
		r.Violate(key+"/replay", fmt.Sprintf("autometa.Load's stream on %s replays %d bytes (err %v), the input has %d", name, len(rest), err, len(data)), cs(), nil)
	}
	return which
}

// C19: auto-detection behaves like the matching format-specific loader.
func C19(tier string) {
	r := ev.Begin("C19", tier, "exploration")
	r.NotExhaustive()
	r.Rule("differential over: the C05 header grammar (18k files), the C06 size/order/damage files, every truncation and EVERY single-byte substitution (255 values x every position) of the small format seeds (incl. a JPEG with short segments after its frame header), the corrupt seeds, polyglots (first k=1..12 bytes of each format followed by each other format's complete file; signature + junk; SOI without SOF + 64 KiB; RIFF/WEBP + unknown chunk; one format's file appended to another's), the repository images; each all at once, 1 byte per call and from a seekable reader positioned 37 bytes into its data; every sequence of up to 4 (thorough 5) operations {Load(auto or specific, file), drain(earlier stream)} over five small files; distinct = distinct inputs")
	r.Assume("'succeeds' = returns metadata and a nil error on the complete input read from its first byte; ICC outcome compared as bytes / absent / error presence")

	var inputs []Case
	add := func(c Case) { inputs = append(inputs, c) }
	pngGrammar(2, add)
	jpegGrammar(2, 1, add)
	webpGrammar(add)
	seeds := smallSeeds()
	{
		spec := gen.JPEGSpec{SOFMarker: 0xC0, Precision: 8, W: 33, H: 21, Comps: jpegComps(3, []byte{1, 1, 1, 1, 1, 1}),
			Before: []gen.JPEGSeg{jpegSegByName("COM")}, After: []gen.JPEGSeg{jpegSegByName("DRI"), {Marker: 0xFE, Data: []byte("ab")}, jpegSegByName("DHT")}, Scan: []byte{1}}
		d, evs := spec.Build()
		seeds = append(seeds, Case{"seed jpeg with short segments after SOF", d, gen.JPEGModel(spec, evs)})
	}
	for _, c := range seeds {
		add(c)
	}
	for _, c := range corruptSeeds() {
		add(c)
	}
	for _, c := range repoImages() {
		add(c)
	}
	// C06-style payload sizes
	for _, n := range []int{1, 4096, 65519, 70000, 200000, 1 << 20} {
		prof := testProfile(n, "lcg")
		var sizes []int
		for rem := n; rem > 0; {
			s := minI(rem, 65519)
			sizes = append(sizes, s)
			rem -= s
		}
		var segs []gen.JPEGSeg
		off := 0
		for i, s := range sizes {
			segs = append(segs, gen.ICCSeg(byte(i+1), byte(len(sizes)), prof[off:off+s]))
			off += s
		}
		spec := gen.JPEGSpec{SOFMarker: 0xC0, Precision: 8, W: 64, H: 64, Comps: jpegComps(3, []byte{2, 2, 1, 1, 1, 1}), Before: segs, Scan: []byte{0}}
		d, evs := spec.Build()
		add(Case{fmt.Sprintf("jpeg ICC %d bytes before SOF", n), d, gen.JPEGModel(spec, evs)})
		ps := gen.PNGSpec{W: 5, H: 5, BitDepth: 8, ColorType: 2, IDAT: []byte{0x78, 0x9c, 3, 0, 0, 0, 0, 1}, Pre: []gen.PNGChunk{{Type: "tEXt", Data: bytes.Repeat([]byte{'t'}, n)}, {Type: "iCCP", Data: gen.ICCPChunk("p", prof, 0)}}}
		dp, ip := ps.Build(prof, 1)
		add(Case{fmt.Sprintf("png %d bytes of text then iCCP %d", n, n), dp, ip})
		dw, iw := gen.WebPVP8X(0x20, 1, 1, prof, nil)
		add(Case{fmt.Sprintf("webp ICCP %d", n), dw, iw})
	}
	// polyglots
	firsts := []Case{seeds[1], seeds[3], seeds[8]}
	for _, a := range firsts {
		for _, b := range firsts {
			if a.Info.Format == b.Info.Format {
				continue
			}
			for k := 1; k <= 12; k++ {
				add(Case{fmt.Sprintf("first %d bytes of %s + complete %s", k, a.Info.Format, b.Info.Format), append(append([]byte(nil), a.Data[:k]...), b.Data...), gen.Info{}})
			}
			add(Case{fmt.Sprintf("%s followed by %s", a.Info.Format, b.Info.Format), append(append([]byte(nil), a.Data...), b.Data...), gen.Info{}})
		}
	}
	junk := make([]byte, 70000)
	lcg(junk, 99)
	add(Case{"png signature + junk", append([]byte{0x89, 'P', 'N', 'G', 0x0D, 0x0A, 0x1A, 0x0A}, junk...), gen.Info{}})
	add(Case{"png signature + IHDR + junk", append(append([]byte(nil), seeds[0].Data[:33]...), junk...), gen.Info{}})
	{
		var b []byte
		b = append(b, 0xFF, 0xD8)
		for i := 0; i < 40; i++ {
			b = append(b, 0xFF, 0xFE, 0x07, 0x00)
			b = append(b, make([]byte, 0x700-2)...)
		}
		add(Case{"SOI + 70 KiB of COM, no SOF", b, gen.Info{}})
		add(Case{"SOI + 70 KiB of COM + valid webp", append(append([]byte(nil), b...), seeds[5].Data...), gen.Info{}})
	}
	add(Case{"RIFF/WEBP + unknown chunk", gen.RiffWrap(gen.RiffChunk("JUNK", junk[:100])), gen.Info{}})
	add(Case{"RIFF/WEBP + unknown chunk + VP8", gen.RiffWrap(append(gen.RiffChunk("JUNK", junk[:100]), seeds[5].Data[12:]...)), gen.Info{}})

	var ndone atomic.Int64
	outcomes := map[string]*atomic.Int64{"pngmeta": {}, "jpegmeta": {}, "webpmeta": {}, "none": {}, "panic": {}}
	r.Par(ev.Workers(), func(shard, n int) {
		for i := shard; i < len(inputs); i += n {
			c := &inputs[i]
			outcomes[c19Check(r, c.Name, c.Data, 0, "auto")].Add(1)
			if len(c.Data) <= 100000 {
				c19Check(r, c.Name, c.Data, 1, "auto-1byte")
				c19Check(r, c.Name, c.Data, -37, "auto-positioned-seekable")
				r.Eval(2)
			}
			r.Eval(1)
			ndone.Add(1)
		}
	})
	// truncations and single-byte substitutions of the seeds
	type job struct {
		s   *Case
		pos int
	}
	var jobs []job
	for i := range seeds {
		for p := 0; p < len(seeds[i].Data); p++ {
			jobs = append(jobs, job{&seeds[i], p})
		}
	}
	r.Par(ev.Workers(), func(shard, n int) {
		var evals int64
		for ji := shard; ji < len(jobs); ji += n {
			j := jobs[ji]
			outcomes[c19Check(r, fmt.Sprintf("%s cut at %d", j.s.Name, j.pos), j.s.Data[:j.pos], 0, "auto-truncated")].Add(1)
			c19Check(r, fmt.Sprintf("%s cut at %d", j.s.Name, j.pos), j.s.Data[:j.pos], 1, "auto-truncated-1byte")
			evals += 2
			buf := append([]byte(nil), j.s.Data...)
			for v := 0; v < 256; v++ {
				if byte(v) == j.s.Data[j.pos] {
					continue
				}
				buf[j.pos] = byte(v)
				outcomes[c19Check(r, fmt.Sprintf("%s with byte %d set to %#02x", j.s.Name, j.pos, v), buf, 0, "auto-substituted")].Add(1)
				evals++
			}
			if r.NViolations() > 20 {
				break
			}
		}
		r.Eval(evals)
		r.DistinctN(evals - evals/129)
	})
	sd := 4
	if tier == "thorough" {
		sd = 5
	}
	loaderSequences(r, sd, "sequence", true, true)
	r.DistinctN(int64(len(inputs)))
	oc := map[string]int64{}
	for k, v := range outcomes {
		oc[k] = v.Load()
	}
	r.Set("inputs_by_first_succeeding_loader", oc)
	r.Sample(map[string]interface{}{"input": inputs[len(inputs)-1].Name, "len": len(inputs[len(inputs)-1].Data)})
	r.Sample(map[string]interface{}{"input": "seed jpeg with short segments after SOF, byte substituted", "data_hex": hexHead(seeds[len(seeds)-1].Data, 80)})
	r.Finish()
}
