package props

import (
	"fmt"
	"math"

	"github.com/mandykoh/prism/ciexyy"
	"github.com/mandykoh/prism/ciexyz"
	"github.com/mandykoh/prism/matrix"

	"verif/engine/ev"
	"verif/refs"
)

func toPkg(m refs.M3) matrix.Matrix3 {
	var o matrix.Matrix3
	for c := 0; c < 3; c++ {
		for rw := 0; rw < 3; rw++ {
			o[c][rw] = m[rw][c]
		}
	}
	return o
}

func matFromIndex(alpha []float64, idx int) refs.M3 {
	var m refs.M3
	n := len(alpha)
	for i := 0; i < 9; i++ {
		m[i/3][i%3] = alpha[idx%n]
		idx /= n
	}
	return m
}

func ipow(b, e int) int {
	r := 1
	for i := 0; i < e; i++ {
		r *= b
	}
	return r
}

// inversePanics reports whether m.Inverse() panicked.
func inversePanics(m matrix.Matrix3) (panicked bool, out matrix.Matrix3) {
	defer func() {
		if recover() != nil {
			panicked = true
		}
	}()
	out = m.Inverse()
	return
}

// C20: generated primaries matrices and the 3x3 algebra.
func C20(tier string) {
	r := ev.Begin("C20", tier, "exploration")
	r.NotExhaustive()
	step := 0.1
	dy := []float64{-1, 0, 1, 3}
	if tier == "thorough" {
		step = 0.04
		dy = []float64{-4, -2, -1, -0.5, 0, 0.25, 1, 3, 4}
	}
	nd := []float64{-0.7, 0.1, 1.0 / 3, 2.3}
	r.Rule(fmt.Sprintf("primaries: all unordered triples of chromaticity lattice points (step %.2f, x,y in [0.05,0.80], x+y<=1) with triangle area >= 0.01 x every lattice white strictly inside, plus %d published RGB spaces in all 6 primary orders; every sequence of up to 3 requests (each for both directions, RGB->XYZ only or XYZ->RGB only) over 2 primary sets x 3 primary-luminance triples x 3 whites x 3 white luminances (0.5, 1, 100; the matrix scales with the white\u2019s Y and does not depend on the primaries\u2019 Y); algebra: every matrix with entries in %v (9 entries) and in the non-dyadic alphabet %v with |det| >= 1e-3: Inverse, Transpose, MulV x 4 vectors, MulM both ways x 14 partner matrices against row-major float64 / Gauss-Jordan; singular: every matrix from both alphabets with a repeated or zero column must panic; distinct = configurations / matrices passing the non-degeneracy filter", step, len(refs.PublishedSpaces), dy, nd))
	r.Assume("reference matrices derive from the same float32 chromaticities converted exactly to float64 (the package converts xyY->XYZ in float32; tolerance 4e-7*(1+cond) covers that step)")
	r.Assume("exactly singular means a repeated or zero column, for which the package's adjugate expansion cancels term by term; matrices singular only in exact arithmetic are not demanded to panic")

	// ---- (a) primaries
	var pts []refs.XY
	for x := 0.05; x < 0.8001; x += step {
		for y := 0.05; y < 0.8001; y += step {
			if x+y <= 1.0000001 {
				pts = append(pts, refs.XY{X: float64(float32(x)), Y: float64(float32(y))})
			}
		}
	}
	area := func(a, b, c refs.XY) float64 {
		return math.Abs((b.X-a.X)*(c.Y-a.Y)-(c.X-a.X)*(b.Y-a.Y)) / 2
	}
	// strictly inside with a margin: every barycentric coordinate >= 0.02 (the
	// lattice points are float32-rounded, so an exact test would admit whites
	// that sit on an edge up to rounding, i.e. degenerate configurations)
	inside := func(p, a, b, c refs.XY) bool {
		den := (b.Y-c.Y)*(a.X-c.X) + (c.X-b.X)*(a.Y-c.Y)
		l1 := ((b.Y-c.Y)*(p.X-c.X) + (c.X-b.X)*(p.Y-c.Y)) / den
		l2 := ((c.Y-a.Y)*(p.X-c.X) + (a.X-c.X)*(p.Y-c.Y)) / den
		l3 := 1 - l1 - l2
		return l1 >= 0.02 && l2 >= 0.02 && l3 >= 0.02
	}
	xyy := func(p refs.XY) ciexyy.Color { return ciexyy.Color{X: float32(p.X), Y: float32(p.Y), YY: 1} }
	checkPrim := func(name string, a, b, c, w refs.XY) {
		A, B, C, W := xyy(a), xyy(b), xyy(c), xyy(w)
		to := m3of(ciexyz.TransformToXYZForXYYPrimaries(A, B, C, W))
		from := m3of(ciexyz.TransformFromXYZForXYYPrimaries(A, B, C, W))
		fa, fb, fc, fw := xyOf(A), xyOf(B), xyOf(C), xyOf(W)
		ref := refs.RGBToXYZ(fa, fb, fc, fw)
		cond := ref.Cond()
		// the unscaled primaries matrix drives the sensitivity of the scale factors
		P := refs.M3{}
		for k, p := range []refs.XY{fa, fb, fc} {
			v := refs.XYZFromXYY(p.X, p.Y, 1)
			P[0][k], P[1][k], P[2][k] = v[0], v[1], v[2]
		}
		if pc := P.Cond(); pc > cond {
			cond = pc
		}
		cs := func() interface{} {
			return map[string]interface{}{"name": name, "r": a, "g": b, "b": c, "white": w}
		}
		tol := 4e-7 * (1 + cond) * math.Max(1, ref.NormInf())
		if d := refs.MaxAbsDiff(to, ref); !(d <= tol) {
			r.Violate("primaries/matrix", fmt.Sprintf("%s: RGB->XYZ for primaries %v %v %v white %v differs from the float64 derivation by %.3g (tol %.3g)", name, a, b, c, w, d, tol), cs(), nil)
		}
		wx := to.MulV(refs.V3{1, 1, 1})
		wr := refs.XYZFromXYY(fw.X, fw.Y, 1)
		for k := 0; k < 3; k++ {
			if !(math.Abs(wx[k]-wr[k]) <= tol) {
				r.Violate("primaries/white", fmt.Sprintf("%s: (1,1,1) maps to %v, white XYZ is %v", name, wx, wr), cs(), nil)
				break
			}
		}
		for k, p := range []refs.XY{fa, fb, fc} {
			v := to.MulV(refs.V3{b2f(k == 0), b2f(k == 1), b2f(k == 2)})
			s := v[0] + v[1] + v[2]
			if !(math.Abs(v[0]/s-p.X) <= 4e-7*(1+cond) && math.Abs(v[1]/s-p.Y) <= 4e-7*(1+cond)) {
				r.Violate("primaries/chromaticity", fmt.Sprintf("%s: unit primary %d maps to chromaticity (%.8f, %.8f), declared (%.8f, %.8f)", name, k, v[0]/s, v[1]/s, p.X, p.Y), cs(), nil)
			}
		}
		if d := refs.MaxAbsDiff(from.Mul(to), refs.Identity()); !(d <= 1e-9*math.Max(1, to.Cond())) {
			r.Violate("primaries/inverse", fmt.Sprintf("%s: (XYZ->RGB)(RGB->XYZ) differs from identity by %.3g", name, d), cs(), nil)
		}
	}
	r.Par(ev.Workers(), func(shard, n int) {
		var evals int64
		for i := shard; i < len(pts); i += n {
			for j := i + 1; j < len(pts); j++ {
				for k := j + 1; k < len(pts); k++ {
					if area(pts[i], pts[j], pts[k]) < 0.01 {
						continue
					}
					for _, w := range pts {
						if inside(w, pts[i], pts[j], pts[k]) {
							checkPrim("lattice", pts[i], pts[j], pts[k], w)
							evals++
						}
					}
				}
			}
		}
		r.Eval(evals)
		r.DistinctN(evals)
	})
	for _, sp := range refs.PublishedSpaces {
		p := []refs.XY{sp.R, sp.G, sp.B}
		for _, o := range [][3]int{{0, 1, 2}, {0, 2, 1}, {1, 0, 2}, {1, 2, 0}, {2, 0, 1}, {2, 1, 0}} {
			f := func(q refs.XY) refs.XY { return refs.XY{X: float64(float32(q.X)), Y: float64(float32(q.Y))} }
			checkPrim(sp.Name, f(p[o[0]]), f(p[o[1]]), f(p[o[2]]), f(sp.W))
			r.Eval(1)
			r.DistinctN(1)
		}
	}
	// request sequences: same chromaticities with different primary luminances,
	// same primaries with different whites, in every order up to length 3
	{
		type req struct {
			p  refs.Primaries
			yy [3]float32
			w  refs.XY
			wy float32 // luminance of the white point: the matrix scales with it
		}
		s, p3 := refs.PublishedSpaces[0], refs.PublishedSpaces[3]
		var reqs []req
		for _, pr := range []refs.Primaries{s, p3} {
			for _, yy := range [][3]float32{{1, 1, 1}, {0.2126, 0.7152, 0.0722}, {3, 0.5, 10}} {
				for _, w := range []refs.XY{refs.D65pub, refs.D50pub, {X: 0.314, Y: 0.351}} {
					for _, wy := range []float32{1, 0.5, 100} {
						reqs = append(reqs, req{pr, yy, w, wy})
					}
				}
			}
		}
		// requests that differ from an earlier one only from the fifth decimal on
		for _, w := range []refs.XY{{X: 0.31271, Y: 0.32902}, {X: 0.31272, Y: 0.32903}, {X: 0.3127, Y: 0.3290}} {
			reqs = append(reqs, req{s, [3]float32{1, 1, 1}, w, 1})
		}
		nearBlue := s
		nearBlue.B = refs.XY{X: 0.15004, Y: 0.05996}
		reqs = append(reqs, req{nearBlue, [3]float32{1, 1, 1}, refs.D65pub, 1})
		// every request comes in three kinds: both directions, RGB->XYZ only,
		// XYZ->RGB only (a direction asked for on its own must not depend on what
		// the other direction was last asked for)
		nreq := len(reqs)
		n := 3 * nreq
		for l := 1; l <= 3; l++ {
			tot := ipow(n, l)
			if l == 3 && tier != "thorough" {
				tot = 0 // quick: all singles and pairs; triples in thorough
			}
			for idx := 0; idx < tot; idx++ {
				q := idx
				var trace []string
				for k := 0; k < l; k++ {
					rq, kind := reqs[(q%n)%nreq], (q%n)/nreq
					q /= n
					f := func(v refs.XY, yy float32) ciexyy.Color {
						return ciexyy.Color{X: float32(v.X), Y: float32(v.Y), YY: yy}
					}
					A, B, C, W := f(rq.p.R, rq.yy[0]), f(rq.p.G, rq.yy[1]), f(rq.p.B, rq.yy[2]), f(rq.w, rq.wy)
					ref := refs.RGBToXYZ(xyOf(A), xyOf(B), xyOf(C), xyOf(W))
					for i := range ref {
						for j := range ref[i] {
							ref[i][j] *= float64(rq.wy) // the matrix is linear in the white point's XYZ
						}
					}
					if kind == 2 {
						gotInv := m3of(ciexyz.TransformFromXYZForXYYPrimaries(A, B, C, W))
						trace = append(trace, fmt.Sprintf("XYZ->RGB only: %s primaries with Y=%v, white (%g,%g) Y=%g", rq.p.Name, rq.yy, rq.w.X, rq.w.Y, rq.wy))
						if d := refs.MaxAbsDiff(gotInv.Mul(ref), refs.Identity()); !(d <= 1e-5*(1+ref.Cond())) {
							r.Violate("primaries/sequence-from-only", fmt.Sprintf("request %d of the sequence %v: (XYZ->RGB) x reference(RGB->XYZ) differs from identity by %.3g", k+1, trace, d), map[string]interface{}{"sequence": trace}, nil)
						}
						r.Eval(1)
						continue
					}
					got := m3of(ciexyz.TransformToXYZForXYYPrimaries(A, B, C, W))
					gotInv := refs.M3{}
					if kind == 0 {
						gotInv = m3of(ciexyz.TransformFromXYZForXYYPrimaries(A, B, C, W))
					}
					gv, wv := got.MulV(refs.V3{1, 1, 1}), refs.XYZFromXYY(float64(W.X), float64(W.Y), float64(rq.wy))
					dw := 0.0
					for i := range gv {
						dw = math.Max(dw, math.Abs(gv[i]-wv[i]))
					}
					if !(dw <= 4e-6*float64(rq.wy)*(1+ref.Cond())) {
						r.Violate("primaries/sequence-white", fmt.Sprintf("request %d of a sequence (%s primaries, white (%g,%g) Y=%g, after %v): (1,1,1) maps %.3g away from the white point's XYZ", k+1, rq.p.Name, rq.w.X, rq.w.Y, rq.wy, trace, dw), map[string]interface{}{"sequence": trace}, nil)
					}
					trace = append(trace, fmt.Sprintf("%s%s primaries with Y=%v, white (%g,%g) Y=%g", map[int]string{0: "", 1: "RGB->XYZ only: "}[kind], rq.p.Name, rq.yy, rq.w.X, rq.w.Y, rq.wy))
					tol := 4e-7 * (1 + ref.Cond()*4) * math.Max(1, ref.NormInf())
					if d := refs.MaxAbsDiff(got, ref); !(d <= tol) {
						r.Violate("primaries/sequence", fmt.Sprintf("request %d of the sequence %v: RGB->XYZ differs from the reference by %.3g", k+1, trace, d), map[string]interface{}{"sequence": trace}, nil)
					}
					if d := refs.MaxAbsDiff(gotInv.Mul(got), refs.Identity()); kind == 0 && !(d <= 1e-9*math.Max(1, ref.Cond())) {
						r.Violate("primaries/sequence-inverse", fmt.Sprintf("request %d of the sequence %v: (XYZ->RGB)(RGB->XYZ) differs from identity by %.3g", k+1, trace, d), map[string]interface{}{"sequence": trace}, nil)
					}
					r.Eval(1)
				}
			}
		}
	}
	to := ciexyz.TransformToXYZForXYYPrimaries(xyy(refs.PublishedSpaces[4].R), xyy(refs.PublishedSpaces[4].G), xyy(refs.PublishedSpaces[4].B), xyy(refs.PublishedSpaces[4].W))
	r.Sample(map[string]interface{}{"space": "rec2020", "RGB_to_XYZ_row_major": m3of(to), "reference": refs.RGBToXYZ(refs.PublishedSpaces[4].R, refs.PublishedSpaces[4].G, refs.PublishedSpaces[4].B, refs.PublishedSpaces[4].W)})

	// ---- (b) algebra
	partners := []refs.M3{
		refs.Identity(),
		{{2, 0, 0}, {0, -3, 0}, {0, 0, 0.5}},
		{{0.1, 0, 0}, {0, 0.7, 0}, {0, 0, -2.3}},
		{{0, 1, 0}, {0, 0, 1}, {1, 0, 0}},
		{{1, 2, 3}, {4, 5, 6}, {7, 8, 10}},
		{{0.1, -0.7, 1.0 / 3}, {2.3, 0.9, -1.1}, {0.05, 3.7, -0.3}},
		{{1, 1, 0}, {0, 1, 1}, {0, 0, 1}},
		{{1, 0, 0}, {1, 1, 0}, {1, 1, 1}},
		{{0, 0, 0}, {0, 0, 0}, {0, 0, 0}},
		{{1, 2, 3}, {1, 2, 3}, {1, 2, 3}},
		refs.Bradford,
		{{-4, 4, -4}, {4, -4, 4}, {0.25, 0.25, 0.25}},
		{{3, 0, 0}, {0, 3, 0}, {0, 0, 3}},
		{{0, 0, 1e-3}, {0, 1e3, 0}, {1, 0, 0}},
	}
	vecs := []refs.V3{{1, 0, 0}, {0.3, -0.7, 2.1}, {1, 1, 1}, {-4, 0.25, 1e-3}}
	checkAlg := func(m refs.M3) bool {
		det := m.Det()
		pm := toPkg(m)
		// transpose, products: for every matrix, singular or not
		if d := refs.MaxAbsDiff(m3of(pm.Transpose()), m.T()); d != 0 {
			r.Violate("algebra/transpose", fmt.Sprintf("Transpose of %v is wrong", m), map[string]interface{}{"m": m}, nil)
		}
		for _, v := range vecs {
			got := pm.MulV(matrix.Vector3{v[0], v[1], v[2]})
			want := m.MulV(v)
			for k := 0; k < 3; k++ {
				if !(math.Abs(got[k]-want[k]) <= 1e-12*math.Max(1, m.NormInf())*5) {
					r.Violate("algebra/MulV", fmt.Sprintf("MulV: %v x %v = %v, reference %v", m, v, got, want), map[string]interface{}{"m": m, "v": v}, nil)
					break
				}
			}
		}
		for pi, p := range partners {
			pp := toPkg(p)
			if d := refs.MaxAbsDiff(m3of(pm.MulM(pp)), m.Mul(p)); !(d <= 1e-12*math.Max(1, m.NormInf()*p.NormInf())) {
				r.Violate("algebra/MulM", fmt.Sprintf("MulM: M x partner#%d differs from the reference product by %.3g, M = %v", pi, d, m), map[string]interface{}{"m": m, "partner": p, "order": "M*P"}, nil)
			}
			if d := refs.MaxAbsDiff(m3of(pp.MulM(pm)), p.Mul(m)); !(d <= 1e-12*math.Max(1, m.NormInf()*p.NormInf())) {
				r.Violate("algebra/MulM", fmt.Sprintf("MulM: partner#%d x M differs from the reference product by %.3g, M = %v", pi, d, m), map[string]interface{}{"m": m, "partner": p, "order": "P*M"}, nil)
			}
		}
		if math.Abs(det) < 1e-3 {
			return false
		}
		ref, ok := m.Inv()
		if !ok {
			return false
		}
		panicked, inv := inversePanics(pm)
		if panicked {
			r.Violate("algebra/inverse-panic", fmt.Sprintf("Inverse panicked on an invertible matrix (det %.4g): %v", det, m), map[string]interface{}{"m": m}, nil)
			return true
		}
		cond := m.NormInf() * ref.NormInf()
		if d := refs.MaxAbsDiff(m3of(inv), ref); !(d <= 1e-12*cond*math.Max(1, ref.NormInf())) {
			r.Violate("algebra/inverse", fmt.Sprintf("Inverse of %v differs from Gauss-Jordan by %.3g (cond %.3g)", m, d, cond), map[string]interface{}{"m": m}, nil)
		}
		if d := refs.MaxAbsDiff(m3of(inv.MulM(pm)), refs.Identity()); !(d <= 1e-12*cond) {
			r.Violate("algebra/inverse-product", fmt.Sprintf("Inverse(M) x M differs from identity by %.3g for %v", d, m), map[string]interface{}{"m": m}, nil)
		}
		return true
	}
	for _, alpha := range [][]float64{dy, nd} {
		total := ipow(len(alpha), 9)
		r.Par(ev.Workers(), func(shard, n int) {
			var evals, distinct int64
			for idx := shard; idx < total; idx += n {
				if checkAlg(matFromIndex(alpha, idx)) {
					distinct++
				}
				evals++
				if evals%65536 == 0 && (r.OutOfTime() || r.NViolations() > 10) {
					break
				}
			}
			r.Eval(evals)
			r.DistinctN(distinct)
		})
	}

	// nearly singular but invertible matrices: a dependent third column with one
	// entry moved so that the determinant takes a prescribed small value
	{
		vals := []float64{-3.9, -3.3, -2.9, 2.7, 3.1, 3.5, 3.7, 3.9, 0.7, -1.3}
		cnt := 0
		for a := 0; a < len(vals); a++ {
			for b := 0; b < len(vals); b++ {
				c0 := refs.V3{vals[a], vals[(a+3)%len(vals)], vals[(a+5)%len(vals)]}
				c1 := refs.V3{vals[b], vals[(b+7)%len(vals)], vals[(b+2)%len(vals)]}
				for _, mix := range [][2]float64{{1, 1}, {0.5, -1}, {-0.9, 0.3}} {
					c2 := refs.V3{mix[0]*c0[0] + mix[1]*c1[0], mix[0]*c0[1] + mix[1]*c1[1], mix[0]*c0[2] + mix[1]*c1[2]}
					cof := c0[0]*c1[1] - c1[0]*c0[1] // cofactor of entry (row 2, col 2)
					if math.Abs(cof) < 0.5 {
						continue
					}
					for _, det := range []float64{1.0e-3, 1.3e-3, 2e-3, 3.3e-3, 5e-3, 1e-2, 0.05, -1.7e-3} {
						m := refs.M3{{c0[0], c1[0], c2[0]}, {c0[1], c1[1], c2[1]}, {c0[2], c1[2], c2[2] + det/cof}}
						if math.Abs(m[2][2]) > 4 || math.Abs(m.Det()) < 0.9e-3 {
							continue
						}
						checkAlg(m)
						cnt++
					}
				}
			}
		}
		r.Eval(int64(cnt))
		r.DistinctN(int64(cnt))
	}

	// ---- (c) exactly singular matrices must panic
	singular := func(m refs.M3, why string) {
		r.Eval(1)
		panicked, out := inversePanics(toPkg(m))
		if !panicked {
			r.Violate("singular/"+why, fmt.Sprintf("Inverse of an exactly singular matrix (%s) returned %v instead of panicking; M = %v", why, m3of(out), m), map[string]interface{}{"m": m}, nil)
		}
	}
	for _, alpha := range [][]float64{dy, nd, {0.1, 0.3, -0.7, 0.9}, {-0.8, 0.4, 0.8, -0.9, 0.3, -0.2}} {
		n := len(alpha)
		tot := ipow(n, 6)
		if tot > 300000 {
			tot = 300000
		}
		for idx := 0; idx < tot; idx++ {
			var c1, c2 refs.V3
			q := idx
			for i := 0; i < 3; i++ {
				c1[i] = alpha[q%n]
				q /= n
			}
			for i := 0; i < 3; i++ {
				c2[i] = alpha[q%n]
				q /= n
			}
			col := func(a, b, c refs.V3) refs.M3 {
				return refs.M3{{a[0], b[0], c[0]}, {a[1], b[1], c[1]}, {a[2], b[2], c[2]}}
			}
			z := refs.V3{}
			singular(col(c1, c1, c2), "columns 0 and 1 equal")
			singular(col(c1, c2, c1), "columns 0 and 2 equal")
			singular(col(c2, c1, c1), "columns 1 and 2 equal")
			singular(col(z, c1, c2), "column 0 zero")
			singular(col(c1, z, c2), "column 1 zero")
			singular(col(c1, c2, z), "column 2 zero")
		}
	}
	r.Finish()
}

func b2f(b bool) float64 {
	if b {
		return 1
	}
	return 0
}
