package props

import (
	"bytes"
	"fmt"
	"image"
	"image/color"
	"image/jpeg"
	"image/png"
	"strings"

	"golang.org/x/image/webp"

	"verif/gen"
)

// Case is one generated input with what a loader must report.
type Case struct {
	Name string
	Data []byte
	Info gen.Info
}

func (c *Case) name() string { return c.Name }

// lcg fills b with incompressible-looking bytes.
func lcg(b []byte, seed uint32) {
	x := seed*2654435761 + 12345
	for i := range b {
		x = x*1664525 + 1013904223
		b[i] = byte(x >> 24)
	}
}

func testProfile(n int, kind string) []byte {
	b := make([]byte, n)
	switch kind {
	case "icc", "icc-size-short", "icc-size-long", "icc-size-128":
		// looks like a real profile: valid header and tag table, rest incompressible
		lcg(b, uint32(n)+3)
		if n >= 132 {
			copy(b, gen.ICCHeader(4))
			sz := uint32(n)
			switch kind {
			case "icc-size-short":
				sz = uint32(n - 1 - n/3)
			case "icc-size-long":
				sz = uint32(n + 1000)
			case "icc-size-128":
				sz = 128
			}
			b[0], b[1], b[2], b[3] = byte(sz>>24), byte(sz>>16), byte(sz>>8), byte(sz)
			b[128], b[129], b[130], b[131] = 0, 0, 0, 0
		}
	case "zeros":
	case "ramp":
		for i := range b {
			b[i] = byte(i)
		}
	default:
		lcg(b, uint32(n)+7)
	}
	return b
}

var pngTypes = [][2]byte{{0, 1}, {0, 2}, {0, 4}, {0, 8}, {0, 16}, {2, 8}, {2, 16}, {3, 1}, {3, 2}, {3, 4}, {3, 8}, {4, 8}, {4, 16}, {6, 8}, {6, 16}}

func pngAncillary(name string) gen.PNGChunk {
	switch {
	case name == "gAMA":
		return gen.PNGChunk{Type: "gAMA", Data: []byte{0, 0, 0xB1, 0x8F}}
	case name == "cHRM":
		return gen.PNGChunk{Type: "cHRM", Data: make([]byte, 32)}
	case name == "sRGB":
		return gen.PNGChunk{Type: "sRGB", Data: []byte{0}}
	case name == "pHYs":
		return gen.PNGChunk{Type: "pHYs", Data: []byte{0, 0, 0x0B, 0x13, 0, 0, 0x0B, 0x13, 1}}
	case name == "tIME":
		return gen.PNGChunk{Type: "tIME", Data: []byte{0x07, 0xE4, 2, 29, 23, 59, 58}}
	case name == "tEXt":
		return gen.PNGChunk{Type: "tEXt", Data: []byte("Comment\x00made by the generator")}
	case name == "iTXt9k":
		d := append([]byte("Note\x00\x00\x00\x00\x00"), bytes.Repeat([]byte("0123456789abcdef"), 576)...)
		return gen.PNGChunk{Type: "iTXt", Data: d}
	case name == "PLTE":
		return gen.PNGChunk{Type: "PLTE", Data: []byte{0, 0, 0, 255, 255, 255}}
	case name == "iCCP":
		return gen.PNGChunk{Type: "iCCP", Data: gen.ICCPChunk("gen", testProfile(300, "lcg"), 6)}
	case strings.HasPrefix(name, "tEXt:"):
		var n int
		fmt.Sscanf(name, "tEXt:%d", &n)
		d := append([]byte("Pad\x00"), bytes.Repeat([]byte{'.'}, n)...)
		return gen.PNGChunk{Type: "tEXt", Data: d}
	}
	panic("unknown ancillary " + name)
}

// pngGrammar: legal type/depth pairs x interlace x sequences of <= depth ancillary chunks.
func pngGrammar(depth int, each func(Case)) {
	alpha := []string{"gAMA", "cHRM", "sRGB", "pHYs", "tEXt", "tIME", "iTXt9k", "PLTE", "iCCP"}
	var seqs [][]string
	var rec func(cur []string)
	rec = func(cur []string) {
		seqs = append(seqs, append([]string(nil), cur...))
		if len(cur) == depth {
			return
		}
		for _, a := range alpha {
			dup := false
			for _, c := range cur {
				if c == a && (a == "PLTE" || a == "iCCP" || a == "gAMA" || a == "cHRM" || a == "sRGB" || a == "pHYs" || a == "tIME") {
					dup = true // these chunks may appear at most once
				}
			}
			if !dup {
				rec(append(cur, a))
			}
		}
	}
	rec(nil)
	for ti, td := range pngTypes {
		for _, il := range []byte{0, 1} {
			for si, seq := range seqs {
				// run the full sequence space on three representative types, depth<=1 on the others
				if len(seq) > 1 && !(ti == 3 || ti == 10 || ti == 14) {
					continue
				}
				if len(seq) > 1 && il == 1 {
					continue
				}
				hasPLTE := false
				for _, s := range seq {
					if s == "PLTE" {
						hasPLTE = true
					}
				}
				if hasPLTE && (td[0] == 0 || td[0] == 4) {
					continue // PLTE is illegal in greyscale images
				}
				use := seq
				if td[0] == 3 && !hasPLTE {
					use = append([]string{"PLTE"}, seq...)
				}
				spec := gen.PNGSpec{W: uint32(17 + ti), H: uint32(5 + si%7), BitDepth: td[1], ColorType: td[0], Interlace: il, IDAT: []byte{0x78, 0x9c, 0x03, 0x00, 0x00, 0x00, 0x00, 0x01}}
				iccAt := -1
				var prof []byte
				for i, s := range use {
					c := pngAncillary(s)
					spec.Pre = append(spec.Pre, c)
					if s == "iCCP" {
						iccAt, prof = i, testProfile(300, "lcg")
					}
				}
				data, info := spec.Build(prof, iccAt)
				each(Case{fmt.Sprintf("png ct%d bd%d il%d [%s]", td[0], td[1], il, strings.Join(use, ",")), data, info})
			}
		}
	}
	// iCCP profile names of every legal length (1..79), incl. Latin-1 bytes
	for n := 1; n <= 79; n++ {
		nm := bytes.Repeat([]byte{'n'}, n)
		if n > 1 {
			nm[n-1] = 0xFC
		}
		prof := testProfile(40+n, "ramp")
		spec := gen.PNGSpec{W: uint32(100 + n), H: 50, BitDepth: 8, ColorType: 6, IDAT: []byte{0x78, 0x9c, 0x03, 0, 0, 0, 0, 1},
			Pre: []gen.PNGChunk{pngAncillary("gAMA"), {Type: "iCCP", Data: gen.ICCPChunk(string(nm), prof, 6)}, pngAncillary("pHYs")}}
		data, info := spec.Build(prof, 1)
		each(Case{fmt.Sprintf("png iCCP with a %d-byte profile name", n), data, info})
	}
	// chunk headers straddling the 4096-byte read boundaries, every alignment
	for _, boundary := range []int{4096, 8192} {
		for k := -1; k <= 12; k++ {
			// header of the chunk after the tEXt begins at boundary-k
			// file so far: 8 sig + 25 IHDR; tEXt chunk = 12 + 4 ("Pad\0") + n
			n := boundary - k - 33 - 16
			for _, next := range []string{"gAMA", "iCCP", "IDAT"} {
				spec := gen.PNGSpec{W: 640, H: 480, BitDepth: 8, ColorType: 2, IDAT: []byte{0x78, 0x9c, 0x03, 0, 0, 0, 0, 1}}
				spec.Pre = []gen.PNGChunk{pngAncillary(fmt.Sprintf("tEXt:%d", n))}
				iccAt := -1
				var prof []byte
				if next == "gAMA" {
					spec.Pre = append(spec.Pre, pngAncillary("gAMA"))
				}
				if next == "iCCP" {
					spec.Pre = append(spec.Pre, pngAncillary("iCCP"))
					iccAt, prof = 1, testProfile(300, "lcg")
				}
				data, info := spec.Build(prof, iccAt)
				each(Case{fmt.Sprintf("png next chunk (%s) header at offset %d-%d", next, boundary, k), data, info})
			}
		}
	}
}

func jpegSegByName(name string) gen.JPEGSeg {
	switch name {
	case "APP0":
		return gen.JPEGSeg{Marker: 0xE0, Data: []byte("JFIF\x00\x01\x02\x00\x00\x01\x00\x01\x00\x00")}
	case "APP1":
		return gen.JPEGSeg{Marker: 0xE1, Data: []byte("Exif\x00\x00MM\x00\x2a\x00\x00\x00\x08\x00\x00\x00\x00\x00\x00")}
	case "APP2x":
		return gen.JPEGSeg{Marker: 0xE2, Data: []byte("MPF\x00MM\x00\x2a\x00\x00\x00\x08 not an ICC segment")}
	case "APP13":
		return gen.JPEGSeg{Marker: 0xED, Data: []byte("Photoshop 3.0\x008BIM")}
	case "APP14":
		return gen.JPEGSeg{Marker: 0xEE, Data: []byte("Adobe\x00\x64\x00\x00\x00\x00\x01")}
	case "APP15":
		return gen.JPEGSeg{Marker: 0xEF, Data: []byte("fifteen")}
	case "APP2icc12":
		return gen.JPEGSeg{Marker: 0xE2, Data: []byte("ICC_PROFILE\x00")}
	case "APP2icc13":
		return gen.JPEGSeg{Marker: 0xE2, Data: []byte("ICC_PROFILE\x00\x01")}
	case "APP2empty":
		return gen.JPEGSeg{Marker: 0xE2, Data: nil}
	case "COM":
		return gen.JPEGSeg{Marker: 0xFE, Data: []byte("a comment \xff\xd8 with marker-like bytes")}
	case "DQT":
		d := []byte{0}
		for i := 0; i < 64; i++ {
			d = append(d, byte(1+i))
		}
		return gen.JPEGSeg{Marker: 0xDB, Data: d}
	case "DHT":
		d := []byte{0x00, 0, 1, 5, 1, 1, 1, 1, 1, 1, 0, 0, 0, 0, 0, 0, 0, 0, 1, 2, 3, 4, 5, 6, 7, 8, 9, 10, 11}
		return gen.JPEGSeg{Marker: 0xC4, Data: d}
	case "DRI":
		return gen.JPEGSeg{Marker: 0xDD, Data: []byte{0, 8}}
	case "ICC1":
		return gen.ICCSeg(1, 1, testProfile(200, "lcg"))
	}
	if strings.HasPrefix(name, "APP") {
		var n int
		fmt.Sscanf(name, "APP%d", &n)
		return gen.JPEGSeg{Marker: byte(0xE0 + n), Data: []byte(fmt.Sprintf("app segment %d", n))}
	}
	panic("unknown jpeg segment " + name)
}

func jpegComps(n int, hv []byte) []gen.JPEGComp {
	var c []gen.JPEGComp
	for i := 0; i < n; i++ {
		tq := byte(0)
		if i > 0 {
			tq = 1
		}
		c = append(c, gen.JPEGComp{ID: byte(i + 1), H: hv[2*i], V: hv[2*i+1], Tq: tq})
	}
	return c
}

func jpegGrammar(depthBefore, depthAfter int, each func(Case)) {
	alpha := []string{"APP0", "APP1", "APP2x", "APP13", "APP14", "COM", "DQT", "DHT", "DRI"}
	seqsOf := func(depth int) [][]string {
		var out [][]string
		var rec func(cur []string)
		rec = func(cur []string) {
			out = append(out, append([]string(nil), cur...))
			if len(cur) == depth {
				return
			}
			for _, a := range alpha {
				rec(append(cur, a))
			}
		}
		rec(nil)
		return out
	}
	mk := func(sof byte, comps []gen.JPEGComp, before, after []string, w, h uint16) Case {
		spec := gen.JPEGSpec{SOFMarker: sof, Precision: 8, W: w, H: h, Comps: comps, Scan: []byte{0x12, 0x34, 0xFF, 0x00, 0x56}}
		for _, s := range before {
			spec.Before = append(spec.Before, jpegSegByName(s))
		}
		for _, s := range after {
			spec.After = append(spec.After, jpegSegByName(s))
		}
		data, ev := spec.Build()
		return Case{fmt.Sprintf("jpeg SOF%x %dx%d comps%v before[%s] after[%s]", sof&0xF, w, h, comps, strings.Join(before, ","), strings.Join(after, ",")), data, gen.JPEGModel(spec, ev)}
	}
	std3 := jpegComps(3, []byte{2, 2, 1, 1, 1, 1})
	bs, as := seqsOf(depthBefore), seqsOf(depthAfter)
	for bi, b := range bs {
		for ai, a := range as {
			if len(b) == depthBefore && depthBefore >= 3 && len(a) > 1 {
				continue // depth-3 prefixes are combined with <= 1 trailing segment
			}
			sof := byte(0xC0)
			if (bi+ai)%2 == 1 {
				sof = 0xC2
			}
			each(mk(sof, std3, b, a, uint16(100+bi%50), uint16(60+ai%40)))
		}
	}
	// degenerate but legal APP2 payloads
	for _, s := range []string{"APP2icc12", "APP2icc13", "APP2empty"} {
		for _, sof := range []byte{0xC0, 0xC2} {
			each(mk(sof, std3, []string{"APP0", s}, nil, 222, 111))
			each(mk(sof, std3, []string{"APP0"}, []string{s, "DHT"}, 222, 111))
		}
	}
	// every APPn marker, alone
	for n := 0; n <= 15; n++ {
		for _, sof := range []byte{0xC0, 0xC2} {
			each(mk(sof, std3, []string{fmt.Sprintf("APP%d", n)}, nil, 321, 123))
			each(mk(sof, std3, nil, []string{fmt.Sprintf("APP%d", n)}, 321, 123))
		}
	}
	// component counts and sampling factors
	for _, sof := range []byte{0xC0, 0xC2} {
		for _, nc := range []int{1, 3, 4} {
			tot := ipow(4, nc)
			for idx := 0; idx < tot; idx++ {
				hv := make([]byte, 2*nc)
				q := idx
				for i := 0; i < nc; i++ {
					hv[2*i] = byte(1 + q%2)
					hv[2*i+1] = byte(1 + (q/2)%2)
					q /= 4
				}
				each(mk(sof, jpegComps(nc, hv), []string{"APP0", "DQT"}, []string{"DHT"}, 200, 100))
			}
		}
	}
}

func webpGrammar(each func(Case)) {
	for _, d := range [][2]uint16{{1, 1}, {16, 15}, {0x1234 & 0x3FFF, 0x0578}, {16383, 16383}, {1, 16383}, {16383, 1}} {
		for xs := byte(0); xs < 4; xs++ {
			for ys := byte(0); ys < 4; ys++ {
				data, info := gen.WebPVP8(d[0], d[1], xs, ys, []byte{0, 0, 0, 0, 0, 0}, 0)
				each(Case{fmt.Sprintf("webp VP8 %dx%d scale %d/%d", d[0], d[1], xs, ys), data, info})
			}
		}
		for _, alpha := range []bool{false, true} {
			data, info := gen.WebPVP8L(d[0]-1, d[1]-1, alpha, []byte{0, 0, 0}, 0)
			each(Case{fmt.Sprintf("webp VP8L %dx%d alpha=%v", d[0], d[1], alpha), data, info})
		}
	}
	// VP8 frame tag variants: bitstream versions 0-3 (libwebp writes 1-3 for the
	// simple / no loop filter profiles), show_frame clear, any first-partition size
	for ver := byte(0); ver < 4; ver++ {
		for _, show := range []byte{0x10, 0} {
			for _, psz := range [][2]byte{{0x02, 0x00}, {0xFF, 0xFF}, {0, 0}} {
				data, info := gen.WebPVP8(640, 480, 0, 0, []byte{0, 0, 0, 0, 0, 0}, 0)
				data[20], data[21], data[22] = show|ver<<1|(psz[0]&7)<<5, psz[0], psz[1]
				each(Case{fmt.Sprintf("webp VP8 640x480 frame tag version %d show=%v partition bytes %x", ver, show != 0, psz), data, info})
			}
		}
	}
	vp8, _ := gen.WebPVP8(33, 21, 0, 0, []byte{0, 0, 0, 0, 0, 0}, 0)
	inner := vp8[12:] // the "VP8 " chunk
	for flags := 0; flags < 256; flags++ {
		if flags&0x20 != 0 {
			continue // ICC flag: see C06
		}
		data, info := gen.WebPVP8X(byte(flags), 32, 20, nil, inner)
		each(Case{fmt.Sprintf("webp VP8X flags %#02x 33x21", flags), data, info})
	}
	// extended files whose image data is not a single VP8/VP8L chunk right after
	// the header: separate alpha plane, animation frames, odd-sized chunks (padded)
	alph := gen.RiffChunk("ALPH", []byte{0, 1, 2, 3, 4, 5, 6})
	anim := append(gen.RiffChunk("ANIM", []byte{0, 0, 0, 0, 0, 0}), gen.RiffChunk("ANMF", append([]byte{0, 0, 0, 0, 0, 0, 32, 0, 0, 20, 0, 0, 40, 0, 0, 0}, inner...))...)
	for _, v := range []struct {
		name  string
		flags byte
		icc   []byte
		rest  []byte
	}{
		{"alpha: ALPH then VP8", 0x10, nil, append(append([]byte{}, alph...), inner...)},
		{"alpha + ICCP: ALPH then VP8", 0x30, testProfile(301, "lcg"), append(append([]byte{}, alph...), inner...)},
		{"alpha + ICCP (odd length): ALPH then VP8", 0x30, testProfile(333, "lcg"), append(append([]byte{}, alph...), inner...)},
		{"animation: ANIM, ANMF", 0x02, nil, anim},
		{"animation + ICCP: ANIM, ANMF", 0x22, testProfile(301, "lcg"), anim},
		{"EXIF and XMP after the image", 0x0C, nil, append(append(append([]byte{}, inner...), gen.RiffChunk("EXIF", []byte{1, 2, 3})...), gen.RiffChunk("XMP ", []byte("<x/>"))...)},
	} {
		data, info := gen.WebPVP8X(v.flags, 32, 20, v.icc, v.rest)
		each(Case{"webp VP8X " + v.name, data, info})
	}
	for _, d := range [][2]uint32{{0, 0}, {0xFFFFFF, 0}, {0, 0xFFFFFF}, {0xFFFFFF, 0xFFFFFF}, {0x123456, 0x0789AB}} {
		data, info := gen.WebPVP8X(0, d[0], d[1], nil, inner)
		each(Case{fmt.Sprintf("webp VP8X %dx%d", d[0]+1, d[1]+1), data, info})
		data, info = gen.WebPVP8X(0x20, d[0], d[1], testProfile(301, "lcg"), inner)
		each(Case{fmt.Sprintf("webp VP8X+ICCP %dx%d", d[0]+1, d[1]+1), data, info})
	}
}

// stdConfig cross-validates a generated file with the standard decoders.
// verdict: "ok" (dimensions returned), "unsupported" (well-formed but outside
// what the decoder implements), "rejected" (format error: generator bug).
func stdConfig(format string, data []byte) (w, h int, verdict string, err error) {
	var cfg image.Config
	switch format {
	case "PNG":
		cfg, err = png.DecodeConfig(bytes.NewReader(data))
		if err != nil {
			if _, ok := err.(png.UnsupportedError); ok {
				return 0, 0, "unsupported", err
			}
			return 0, 0, "rejected", err
		}
	case "JPEG":
		cfg, err = jpeg.DecodeConfig(bytes.NewReader(data))
		if err != nil {
			if _, ok := err.(jpeg.UnsupportedError); ok {
				return 0, 0, "unsupported", err
			}
			return 0, 0, "rejected", err
		}
	default:
		cfg, err = webp.DecodeConfig(bytes.NewReader(data))
		if err != nil {
			return 0, 0, "rejected", err
		}
	}
	_ = color.Black
	return cfg.Width, cfg.Height, "ok", nil
}
