package props

import (
	"fmt"
	"io"

	"verif/engine/envx"
	"verif/engine/ev"
)

// envxSelfTest runs the reader-answer explorer on toy consumers whose
// sensitivity to the source's behaviour is known, before it is trusted on the
// loaders: a consumer built on io.ReadFull must give one outcome under every
// schedule; one that assumes a single Read fills its buffer must be exposed by
// exactly one SHORT answer (and by none with zero deviations); one that drops
// the bytes delivered together with an error must be exposed by FULL+EOF; and
// the number of executions with one deviation must be what the alphabet
// predicts for a consumer whose call pattern does not depend on the answers.
func envxSelfTest(r *ev.Run, keyPrefix string) {
	data := []byte("0123456789abcdefghijklmnopqrstuvwxyz")
	sum := func(b []byte) string { return fmt.Sprintf("%d:%x", len(b), b) }
	readFull := func(src io.Reader) string {
		h := make([]byte, 8)
		if _, err := io.ReadFull(src, h); err != nil {
			return "err"
		}
		b := make([]byte, 16)
		if _, err := io.ReadFull(src, b); err != nil {
			return "err"
		}
		return sum(append(h, b...))
	}
	singleRead := func(src io.Reader) string {
		h := make([]byte, 8)
		n, _ := src.Read(h) // assumes the buffer is filled
		_ = n
		return sum(h)
	}
	dropsWithErr := func(src io.Reader) string {
		var all []byte
		buf := make([]byte, 64)
		for {
			n, err := src.Read(buf)
			if err != nil {
				break // forgets buf[:n]
			}
			all = append(all, buf[:n]...)
		}
		return sum(all)
	}
	run := func(consumer func(io.Reader) string, alpha envx.Alphabet, bound int) (outcomes int, st envx.Stats) {
		envx.Explore(bound, func(prefix []int) (*envx.Src, string) {
			src := &envx.Src{Data: data, Alpha: alpha, Prefix: prefix}
			return src, consumer(src)
		}, &st)
		return len(st.Outcomes), st
	}
	fail := func(name, why string) {
		r.Violate(keyPrefix+"/envx-selftest/"+name, "the reader-answer explorer fails its self-test ("+name+"): "+why+"; its reports on the loaders cannot be trusted", nil, nil)
	}
	shorts := envx.Alphabet{Shorts: true, EOFs: true}
	if n, st := run(readFull, shorts, 2); n != 1 {
		fail("ReadFull consumer", fmt.Sprintf("%d outcomes over %d executions, expected 1", n, st.Executions))
	} else if st.Executions < 20 {
		fail("ReadFull consumer", fmt.Sprintf("only %d executions with 2 deviations", st.Executions))
	}
	if n, _ := run(singleRead, shorts, 0); n != 1 {
		fail("single-Read consumer, 0 deviations", fmt.Sprintf("%d outcomes, expected 1", n))
	}
	if n, st := run(singleRead, shorts, 1); n < 2 {
		fail("single-Read consumer, 1 deviation", fmt.Sprintf("%d outcome over %d executions: a SHORT answer must change the result", n, st.Executions))
	} else if st.Executions != 1+5 {
		// one Read(8) call: SHORT(1), SHORT(2), SHORT(3), SHORT(4), SHORT(7) are the alternatives
		fail("single-Read consumer, 1 deviation", fmt.Sprintf("%d executions, the alphabet predicts 6", st.Executions))
	}
	if n, _ := run(dropsWithErr, envx.Alphabet{EOFs: true}, 1); n < 2 {
		fail("consumer dropping data delivered with an error", "FULL+EOF did not change the result")
	}
	if n, _ := run(dropsWithErr, envx.Alphabet{}, 1); n != 1 {
		fail("consumer dropping data delivered with an error, without EOF answers", fmt.Sprintf("%d outcomes, expected 1", n))
	}
	r.Eval(5)
}
