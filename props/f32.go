package props

import "math"

// float32 values in increasing numeric order are indexed by a "key":
//
//	key 0                      = -Inf
//	key 0x7F800000             = -0
//	key 0x7F800001             = +0
//	key 2*0x7F800000+1         = +Inf
//
// NaNs have no key.
const (
	f32KeyNegZero = 0x7F800000
	f32KeyPosZero = 0x7F800001
	f32KeyMax     = 2*0x7F800000 + 1
)

func f32FromKey(k uint64) float32 {
	if k <= f32KeyNegZero {
		return math.Float32frombits(uint32(0xFF800000 - k))
	}
	return math.Float32frombits(uint32(k - f32KeyPosZero))
}

func f32Key(x float32) uint64 {
	b := math.Float32bits(x)
	if b&0x80000000 != 0 {
		return uint64(0xFF800000 - b)
	}
	return uint64(b) + f32KeyPosZero
}

type keySeg struct{ lo, hi uint64 } // inclusive

// f32Chunks cuts segments (sorted, disjoint) into work chunks; prev is the key
// evaluated immediately before the chunk's first key (-1 when none).
type f32Chunk struct {
	lo, hi uint64
	prev   int64
}

func f32Chunks(segs []keySeg, size uint64) []f32Chunk {
	var out []f32Chunk
	prev := int64(-1)
	for _, s := range segs {
		for a := s.lo; a <= s.hi; a += size {
			b := a + size - 1
			if b > s.hi {
				b = s.hi
			}
			out = append(out, f32Chunk{a, b, prev})
			prev = int64(b)
			if b == s.hi {
				break
			}
		}
	}
	return out
}

// f32QuickSegs: everything in [-tiny, 1+], neighbourhoods of every power of two
// and its 1.5x midpoint outside that, the extremes.
func f32QuickSegs() []keySeg {
	var segs []keySeg
	add := func(lo, hi uint64) {
		if len(segs) > 0 && lo <= segs[len(segs)-1].hi+1 {
			if hi > segs[len(segs)-1].hi {
				segs[len(segs)-1].hi = hi
			}
			return
		}
		segs = append(segs, keySeg{lo, hi})
	}
	// negatives: -Inf, -max, then around -2^e for e = 127..-126 and denormals
	add(0, 4)
	for e := 127; e >= -149; e-- {
		for _, m := range []float64{1.5, 1} {
			x := float32(-m * math.Ldexp(1, e))
			if math.IsInf(float64(x), 0) || x == 0 {
				continue
			}
			k := f32Key(x)
			lo := uint64(0)
			if k > 2 {
				lo = k - 2
			}
			hi := k + 2
			if hi > f32KeyNegZero {
				hi = f32KeyNegZero
			}
			add(lo, hi)
		}
	}
	add(f32KeyNegZero-1024, f32KeyNegZero)
	// +0 .. 1 and a little beyond: complete
	add(f32KeyPosZero, f32Key(1)+4096)
	for e := 0; e <= 127; e++ {
		for _, m := range []float64{1, 1.5} {
			x := float32(m * math.Ldexp(1, e))
			if math.IsInf(float64(x), 0) {
				continue
			}
			k := f32Key(x)
			hi := k + 2
			if hi > f32KeyMax {
				hi = f32KeyMax
			}
			add(k-2, hi)
		}
	}
	add(f32KeyMax-4, f32KeyMax)
	return segs
}

func f32AllSegs() []keySeg { return []keySeg{{0, f32KeyMax}} }
