package props

import (
	"bytes"
	"fmt"
	"time"

	"github.com/mandykoh/prism/meta/icc"

	"verif/engine/ev"
	"verif/gen"
	"verif/refs"
)

// Operation-sequence exploration of the ICC reader: the properties describe
// every call as a function of its input alone, so state that survives between
// calls (caches, pools, memoised parses, locks left held) must be
// unobservable. The alphabet is small: Read(P_i) for a handful of profiles
// chosen to collide (same profile ID with different header fields, same sizes
// with different descriptions, a profile whose description tag does not parse)
// and Desc(h_j) on any profile object obtained earlier in the same sequence.
// Every sequence up to the depth bound is executed on the real code in this
// process (package-level state is deliberately NOT reset between sequences:
// later sequences start from whatever state earlier ones left behind) and every
// single result is compared with the reference decode of the profile it
// belongs to. A call that does not return within 60 s is a hang.

type iccSeqProfile struct {
	name    string
	data    []byte
	header  refs.RefHeader
	descs   []string // acceptable descriptions
	descErr bool     // Description must fail
}

func iccSeqProfiles() []iccSeqProfile {
	var out []iccSeqProfile
	add := func(name string, l gen.ICCLayout, mut func(b []byte), descs []string, descErr bool) {
		b := l.Build()
		if mut != nil {
			mut(b)
		}
		out = append(out, iccSeqProfile{name, b, refs.DecodeHeader(b[:128]), descs, descErr})
	}
	id := []byte{0xDE, 0xAD, 0xBE, 0xEF, 1, 2, 3, 4, 5, 6, 7, 8, 9, 10, 11, 12}
	v2 := gen.ICCLayout{Major: 2, Tags: []gen.ICCTag{{Sig: gen.Sig("cprt"), Block: 0}, {Sig: gen.Sig("desc"), Block: 1}}, Blocks: [][]byte{fillerBlock(2), gen.DescV2([]byte("First profile"))}}
	add("P1 v2 'First profile' id X", v2, func(b []byte) { copy(b[84:], id) }, []string{"First profile"}, false)
	v2b := v2
	v2b.Blocks = [][]byte{fillerBlock(2), gen.DescV2([]byte("Other profile"))}
	add("P2 v2 'Other profile' same size, same id X, flags=3 intent=2", v2b, func(b []byte) { copy(b[84:], id); b[47] = 3; b[67] = 2; b[9] = 0x47 }, []string{"Other profile"}, false)
	m, _ := gen.Mluc([]gen.MlucRecord{{Lang: "fr", Country: "FR", Text: "Nom"}, {Lang: "en", Country: "US", Text: "Third 😀"}}, 12, gen.MlucReverse)
	v4 := gen.ICCLayout{Major: 4, Tags: []gen.ICCTag{{Sig: gen.Sig("desc"), Block: 0}, {Sig: gen.Sig("cprt"), Block: 1}}, Blocks: [][]byte{m, fillerBlock(1)}}
	add("P3 v4 mluc 'Third' id zero", v4, nil, []string{"Third 😀"}, false)
	bad, _ := gen.Mluc([]gen.MlucRecord{{Lang: "en", Country: "US", Text: "Broken"}}, 12, gen.MlucTableOrder)
	v4bad := gen.ICCLayout{Major: 4, Tags: []gen.ICCTag{{Sig: gen.Sig("desc"), Block: 0}}, Blocks: [][]byte{bad}}
	add("P4 v4 mluc whose record count exceeds the records present", v4bad, func(b []byte) { b[132+12+11] = 9 }, nil, true)
	add("P5 v2 empty description", gen.ICCLayout{Major: 2, Tags: []gen.ICCTag{{Sig: gen.Sig("desc"), Block: 0}}, Blocks: [][]byte{gen.DescV2(nil)}}, func(b []byte) { copy(b[84:], id); b[84] = 0x11 }, []string{""}, false)
	return out
}

// withTimeout runs f; ok is false when it did not return within d.
func withTimeout(d time.Duration, f func()) (ok bool, panicked interface{}) {
	done := make(chan interface{}, 1)
	go func() {
		defer func() { done <- recover() }()
		f()
	}()
	select {
	case p := <-done:
		return true, p
	case <-time.After(d):
		return false, nil
	}
}

// iccSequences explores all operation sequences up to depth and reports under
// keyPrefix. which selects the oracles: "header", "desc", "liveness".
func iccSequences(r *ev.Run, depth int, keyPrefix string, header, desc bool) {
	profs := iccSeqProfiles()
	type op struct {
		read bool
		arg  int // profile index or handle index
	}
	var seqs int64
	hung := false // a call that did not return: every further sequence would wait for the time limit again
	var rec func(seq []op, nHandles int)
	run := func(seq []op) {
		if hung {
			return
		}
		seqs++
		var handles []*icc.Profile
		var owner []int
		var trace []string
		for _, o := range seq {
			if o.read {
				p := &profs[o.arg]
				trace = append(trace, "Read("+p.name+")")
				var got *icc.Profile
				var err error
				ok, pn := withTimeout(60*time.Second, func() { got, err = icc.NewProfileReader(bytes.NewReader(p.data)).ReadProfile() })
				if !ok {
					hung = true
				}
				if !ok || pn != nil {
					r.Violate(keyPrefix+"/read-hang-or-panic", fmt.Sprintf("ReadProfile did not return normally (returned=%v panic=%v) in the sequence %v", ok, pn, trace), map[string]interface{}{"sequence": trace}, nil)
					return
				}
				if err != nil || got == nil {
					r.Violate(keyPrefix+"/read-failed", fmt.Sprintf("ReadProfile failed (%v) on a well-formed profile in the sequence %v", err, trace), map[string]interface{}{"sequence": trace}, nil)
					return
				}
				if header {
					if d := cmpHeader(got.Header, p.header); d != "" {
						r.Violate(keyPrefix+"/header-after-sequence", fmt.Sprintf("after the sequence %v the header just read is wrong: %s", trace, d), map[string]interface{}{"sequence": trace}, nil)
					}
				}
				handles = append(handles, got)
				owner = append(owner, o.arg)
			} else {
				h, p := handles[o.arg], &profs[owner[o.arg]]
				trace = append(trace, fmt.Sprintf("Description(profile object #%d = %s)", o.arg+1, p.name))
				if !desc {
					continue
				}
				var d string
				var err error
				ok, pn := withTimeout(60*time.Second, func() { d, err = h.Description() })
				if !ok {
					hung = true
					r.Violate(keyPrefix+"/description-hang", fmt.Sprintf("Description() did not return within 60 s in the sequence %v", trace), map[string]interface{}{"sequence": trace}, nil)
					return
				}
				if pn != nil {
					r.Violate(keyPrefix+"/description-panic", fmt.Sprintf("Description() panicked (%v) in the sequence %v", pn, trace), map[string]interface{}{"sequence": trace}, nil)
					return
				}
				if p.descErr {
					if err == nil {
						r.Violate(keyPrefix+"/description-should-fail", fmt.Sprintf("Description() of an unparsable tag returned %q without error in the sequence %v", d, trace), map[string]interface{}{"sequence": trace}, nil)
					}
					continue
				}
				match := err == nil
				if match {
					match = false
					for _, w := range p.descs {
						if w == d {
							match = true
						}
					}
				}
				if !match {
					r.Violate(keyPrefix+"/description-after-sequence", fmt.Sprintf("Description() = %q (err %v), expected %q, in the sequence %v", d, err, p.descs, trace), map[string]interface{}{"sequence": trace}, nil)
				}
			}
		}
	}
	rec = func(seq []op, nHandles int) {
		if len(seq) > 0 {
			run(seq)
		}
		if len(seq) == depth || r.NViolations() > 25 || hung {
			return
		}
		for i := range profs {
			rec(append(append([]op(nil), seq...), op{true, i}), nHandles+1)
		}
		for h := 0; h < nHandles; h++ {
			rec(append(append([]op(nil), seq...), op{false, h}), nHandles)
		}
	}
	rec(nil, 0)
	// long periodic sequences (counters, thresholds, pools warming up): for every
	// ordered pair and triple of profiles, Read each and ask each object for its
	// description, 150 periods in a row, in one run
	for i := range profs {
		for j := range profs {
			for k := range profs {
				if k != j && k != i && (i+j+k)%2 == 1 {
					continue // half of the triples
				}
				// reads, then descriptions of the three latest objects and of the very first one, repeated
				var seq []op
				n := 0
				for rep := 0; rep < 150; rep++ {
					seq = append(seq, op{true, i}, op{true, j}, op{true, k})
					n += 3
					seq = append(seq, op{false, n - 3}, op{false, n - 1}, op{false, n - 2}, op{false, 0})
				}
				run(seq)
				if r.NViolations() > 25 {
					break
				}
			}
		}
	}
	// one ProfileReader over several profiles stored back to back: every ReadProfile
	// call must decode the next profile (state kept in the reader between calls must
	// not leak from one profile into the next)
	if !hung {
		for i := range profs {
			for j := range profs {
				for k := range profs {
					if k != i && (i+j+k)%2 == 1 {
						continue
					}
					order := []int{i, j, k}
					var cat []byte
					for _, x := range order {
						cat = append(cat, profs[x].data...)
					}
					pr := icc.NewProfileReader(bytes.NewReader(cat))
					for n, x := range order {
						var got *icc.Profile
						var err error
						ok, pn := withTimeout(60*time.Second, func() { got, err = pr.ReadProfile() })
						seqs++
						if !ok {
							hung = true
						}
						name := fmt.Sprintf("profile %d of %v (%s) read with one ProfileReader over the concatenation", n+1, order, profs[x].name)
						if !ok || pn != nil || err != nil || got == nil {
							r.Violate(keyPrefix+"/back-to-back-read", fmt.Sprintf("%s: ReadProfile returned=%v panic=%v err=%v", name, ok, pn, err), nil, nil)
							break
						}
						if header {
							if d := cmpHeader(got.Header, profs[x].header); d != "" {
								r.Violate(keyPrefix+"/back-to-back-header", fmt.Sprintf("%s: %s", name, d), nil, nil)
							}
						}
						if desc && !profs[x].descErr {
							var d string
							var derr error
							okD, pnD := withTimeout(60*time.Second, func() { d, derr = got.Description() })
							if !okD {
								hung = true
							}
							if !okD || pnD != nil || derr != nil || !containsStr(profs[x].descs, d) {
								r.Violate(keyPrefix+"/back-to-back-description", fmt.Sprintf("%s: Description() = %q (err %v, returned %v, panic %v), expected %q", name, d, derr, okD, pnD, profs[x].descs), nil, nil)
							}
						}
					}
					if hung {
						break
					}
				}
			}
		}
	}
	r.Eval(seqs)
	r.DistinctN(seqs)
	r.Set(keyPrefix+"_sequences", seqs)
}

func containsStr(ss []string, s string) bool {
	for _, x := range ss {
		if x == s {
			return true
		}
	}
	return false
}
