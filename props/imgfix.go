package props

import (
	"image"
	"image/color"
	"image/draw"
)

// opaqueSrc hides the concrete type of an image behind the image.Image interface.
type opaqueSrc struct{ img image.Image }

func (o opaqueSrc) ColorModel() color.Model { return o.img.ColorModel() }
func (o opaqueSrc) Bounds() image.Rectangle { return o.img.Bounds() }
func (o opaqueSrc) At(x, y int) color.Color { return o.img.At(x, y) }

// opaqueDst hides a draw.Image.
type opaqueDst struct{ img draw.Image }

func (o opaqueDst) ColorModel() color.Model     { return o.img.ColorModel() }
func (o opaqueDst) Bounds() image.Rectangle     { return o.img.Bounds() }
func (o opaqueDst) At(x, y int) color.Color     { return o.img.At(x, y) }
func (o opaqueDst) Set(x, y int, c color.Color) { o.img.Set(x, y, c) }

var ycbcrRatios = []image.YCbCrSubsampleRatio{
	image.YCbCrSubsampleRatio444, image.YCbCrSubsampleRatio422, image.YCbCrSubsampleRatio420,
	image.YCbCrSubsampleRatio440, image.YCbCrSubsampleRatio411, image.YCbCrSubsampleRatio410,
}

var imgKinds = []string{"RGBA64", "NRGBA64", "RGBA", "NRGBA", "YCbCr444", "YCbCr422", "YCbCr420", "YCbCr440", "YCbCr411", "YCbCr410",
	"Gray", "Gray16", "CMYK", "Paletted", "Alpha", "Alpha16", "NYCbCrA", "Opaque"}

// testPalette: 32 entries of several colour types - non-premultiplied entries
// with alpha 255, middling, 3, 2, 1 and 0 (with and without colour), and
// premultiplied, 16-bit and grey entries - so that a conversion that handles
// palette entries by type, or skips the premultiply/un-premultiply round trip
// the standard library makes, differs somewhere.
func testPalette() color.Palette {
	var p color.Palette
	for i := 0; i < 16; i++ {
		p = append(p, color.NRGBA{R: uint8(i * 17), G: uint8(255 - i*13), B: uint8(i * 7 % 256), A: uint8(255 - (i%4)*60)})
	}
	p = append(p,
		color.NRGBA{R: 255, G: 255, B: 255, A: 0}, color.NRGBA{R: 0, G: 0, B: 0, A: 0}, color.NRGBA{R: 201, G: 7, B: 99, A: 3}, color.NRGBA{R: 10, G: 200, B: 30, A: 1},
		color.NRGBA{R: 77, G: 1, B: 254, A: 2}, color.NRGBA{R: 128, G: 128, B: 128, A: 254},
		color.RGBA{R: 100, G: 50, B: 25, A: 100}, color.RGBA{R: 1, G: 0, B: 1, A: 1}, color.RGBA{R: 0, G: 0, B: 0, A: 0}, color.RGBA{R: 200, G: 180, B: 10, A: 255},
		color.NRGBA64{R: 0x1234, G: 0xFEDC, B: 0x8000, A: 0x0101}, color.NRGBA64{R: 0xFFFF, G: 1, B: 0x7FFF, A: 0xFFFF},
		color.RGBA64{R: 0x0100, G: 0x00FF, B: 0x0001, A: 0x0100}, color.Gray{Y: 77}, color.Gray16{Y: 0x1234}, color.Alpha{A: 9})
	return p
}

func fillBytes(b []uint8, seed int) {
	for i := range b {
		b[i] = uint8(i*37 + 11 + seed*101) // 37 is odd: every byte value occurs
	}
}

// alphaClass16 gives pixel k one of: pattern, 0, 0xFFFF, 0xFFxx (almost opaque,
// xx != FF), 0x00xx (almost transparent), 0x8000.
func alphaClass16(k int, hi, lo *uint8) {
	switch k % 6 {
	case 1:
		*hi, *lo = 0, 0
	case 2:
		*hi, *lo = 255, 255
	case 3:
		*hi, *lo = 255, uint8(k*53)%255
	case 4:
		*hi, *lo = 0, uint8(k*29)|1
	case 5:
		*hi, *lo = 0x80, 0
	}
}

// subImager is implemented by every concrete image type of the standard library.
type subImager interface {
	SubImage(r image.Rectangle) image.Image
}

// newImage creates an image of the given kind covering rect r. When margin > 0
// the image is a sub-image of a parent that is margin pixels larger on every
// side (stride > width, non-zero offset into Pix). pix returns the backing
// arrays of the parent (all planes) so callers can snapshot/compare them.
func newImage(kind string, r image.Rectangle, margin, seed int) (img image.Image, planes func() [][]uint8) {
	pr := r.Inset(-margin)
	var parent image.Image
	switch kind {
	case "RGBA64":
		m := image.NewRGBA64(pr)
		fillBytes(m.Pix, seed)
		for i := 0; i+7 < len(m.Pix); i += 8 {
			alphaClass16(i/8, &m.Pix[i+6], &m.Pix[i+7])
		}
		parent, planes = m, func() [][]uint8 { return [][]uint8{m.Pix} }
	case "NRGBA64":
		m := image.NewNRGBA64(pr)
		fillBytes(m.Pix, seed)
		for i := 0; i+7 < len(m.Pix); i += 8 {
			alphaClass16(i/8, &m.Pix[i+6], &m.Pix[i+7])
		}
		parent, planes = m, func() [][]uint8 { return [][]uint8{m.Pix} }
	case "RGBA":
		m := image.NewRGBA(pr)
		fillBytes(m.Pix, seed)
		for i := 0; i+3 < len(m.Pix); i += 4 {
			switch (i / 4) % 6 {
			case 1:
				m.Pix[i+3] = 0
			case 2:
				m.Pix[i+3] = 255
			case 3:
				m.Pix[i+3] = 254
			case 4:
				m.Pix[i+3] = 1
			}
		}
		parent, planes = m, func() [][]uint8 { return [][]uint8{m.Pix} }
	case "NRGBA", "Opaque":
		m := image.NewNRGBA(pr)
		fillBytes(m.Pix, seed)
		for i := 0; i+3 < len(m.Pix); i += 4 {
			switch (i / 4) % 6 {
			case 1:
				m.Pix[i+3] = 0
			case 2:
				m.Pix[i+3] = 255
			case 3:
				m.Pix[i+3] = 254
			case 4:
				m.Pix[i+3] = 1
			}
		}
		parent, planes = m, func() [][]uint8 { return [][]uint8{m.Pix} }
	case "Gray":
		m := image.NewGray(pr)
		fillBytes(m.Pix, seed)
		parent, planes = m, func() [][]uint8 { return [][]uint8{m.Pix} }
	case "Gray16":
		m := image.NewGray16(pr)
		fillBytes(m.Pix, seed)
		parent, planes = m, func() [][]uint8 { return [][]uint8{m.Pix} }
	case "Alpha":
		m := image.NewAlpha(pr)
		fillBytes(m.Pix, seed)
		parent, planes = m, func() [][]uint8 { return [][]uint8{m.Pix} }
	case "Alpha16":
		m := image.NewAlpha16(pr)
		fillBytes(m.Pix, seed)
		parent, planes = m, func() [][]uint8 { return [][]uint8{m.Pix} }
	case "CMYK":
		m := image.NewCMYK(pr)
		fillBytes(m.Pix, seed)
		parent, planes = m, func() [][]uint8 { return [][]uint8{m.Pix} }
	case "Paletted":
		m := image.NewPaletted(pr, testPalette())
		fillBytes(m.Pix, seed)
		for i := range m.Pix {
			m.Pix[i] %= 32
		}
		parent, planes = m, func() [][]uint8 { return [][]uint8{m.Pix} }
	case "NYCbCrA":
		m := image.NewNYCbCrA(pr, image.YCbCrSubsampleRatio420)
		fillBytes(m.Y, seed)
		fillBytes(m.Cb, seed+1)
		fillBytes(m.Cr, seed+2)
		fillBytes(m.A, seed+3)
		parent, planes = m, func() [][]uint8 { return [][]uint8{m.Y, m.Cb, m.Cr, m.A} }
	default: // YCbCrNNN
		ratio := image.YCbCrSubsampleRatio444
		for i, n := range []string{"YCbCr444", "YCbCr422", "YCbCr420", "YCbCr440", "YCbCr411", "YCbCr410"} {
			if n == kind {
				ratio = ycbcrRatios[i]
			}
		}
		m := image.NewYCbCr(pr, ratio)
		fillBytes(m.Y, seed)
		fillBytes(m.Cb, seed+1)
		fillBytes(m.Cr, seed+2)
		parent, planes = m, func() [][]uint8 { return [][]uint8{m.Y, m.Cb, m.Cr} }
	}
	if seed == 3 {
		// fully opaque variant
		switch m := parent.(type) {
		case *image.RGBA64:
			for i := 0; i+7 < len(m.Pix); i += 8 {
				m.Pix[i+6], m.Pix[i+7] = 255, 255
			}
		case *image.NRGBA64:
			for i := 0; i+7 < len(m.Pix); i += 8 {
				m.Pix[i+6], m.Pix[i+7] = 255, 255
			}
		case *image.RGBA:
			for i := 0; i+3 < len(m.Pix); i += 4 {
				m.Pix[i+3] = 255
			}
		case *image.NRGBA:
			for i := 0; i+3 < len(m.Pix); i += 4 {
				m.Pix[i+3] = 255
			}
		case *image.Alpha:
			for i := range m.Pix {
				m.Pix[i] = 255
			}
		case *image.NYCbCrA:
			for i := range m.A {
				m.A[i] = 255
			}
		}
	}
	img = parent
	if margin > 0 {
		img = parent.(subImager).SubImage(r)
	}
	if kind == "Opaque" {
		img = opaqueSrc{img}
	}
	return
}

func snapshot(planes [][]uint8) [][]uint8 {
	out := make([][]uint8, len(planes))
	for i, p := range planes {
		out[i] = append([]uint8(nil), p...)
	}
	return out
}

func planesEqual(a, b [][]uint8) (bool, int, int) {
	for i := range a {
		if len(a[i]) != len(b[i]) {
			return false, i, -1
		}
		for j := range a[i] {
			if a[i][j] != b[i][j] {
				return false, i, j
			}
		}
	}
	return true, 0, 0
}
