package props

import (
	"bytes"
	"fmt"
	"io"

	"github.com/mandykoh/prism/meta"
	"github.com/mandykoh/prism/meta/autometa"
	"github.com/mandykoh/prism/meta/jpegmeta"
	"github.com/mandykoh/prism/meta/pngmeta"
	"github.com/mandykoh/prism/meta/webpmeta"
)

type loaderFn struct {
	Name string
	Load func(io.Reader) (*meta.Data, io.Reader, error)
}

var loaders = []loaderFn{
	{"pngmeta", pngmeta.Load},
	{"jpegmeta", jpegmeta.Load},
	{"webpmeta", webpmeta.Load},
	{"autometa", autometa.Load},
}

func loaderFor(format string) *loaderFn {
	switch format {
	case "PNG":
		return &loaders[0]
	case "JPEG":
		return &loaders[1]
	case "WebP":
		return &loaders[2]
	}
	return &loaders[3]
}

// outcome is everything a caller can observe from Load except error texts.
type outcome struct {
	MdNil      bool
	Format     string
	W, H, Bits uint32
	ICC        []byte
	ICCNil     bool
	ICCErr     bool
	Err        bool
	Panic      string
}

func (o outcome) String() string {
	if o.Panic != "" {
		return "PANIC " + o.Panic
	}
	if o.MdNil {
		return fmt.Sprintf("md=nil err=%v", o.Err)
	}
	icc := "icc=nil"
	if !o.ICCNil {
		icc = fmt.Sprintf("icc=%dB#%08x", len(o.ICC), fnv(o.ICC))
	}
	return fmt.Sprintf("%s %dx%d/%d %s iccErr=%v err=%v", o.Format, o.W, o.H, o.Bits, icc, o.ICCErr, o.Err)
}

func (o outcome) equal(p outcome) bool {
	return o.String() == p.String() && bytes.Equal(o.ICC, p.ICC)
}

func fnv(b []byte) uint32 {
	h := uint32(2166136261)
	for _, c := range b {
		h = (h ^ uint32(c)) * 16777619
	}
	return h
}

// load runs a loader, catching a panic that escapes to the caller.
func load(l *loaderFn, r io.Reader) (o outcome, stream io.Reader) {
	defer func() {
		if p := recover(); p != nil {
			o = outcome{Panic: fmt.Sprint(p)}
		}
	}()
	md, st, err := l.Load(r)
	stream = st
	o.Err = err != nil
	if md == nil {
		o.MdNil = true
		return
	}
	o.Format, o.W, o.H, o.Bits = string(md.Format), md.PixelWidth, md.PixelHeight, md.BitsPerComponent
	d, ierr := md.ICCProfileData()
	o.ICC, o.ICCNil, o.ICCErr = d, d == nil, ierr != nil
	return
}
