package props

import (
	"bytes"
	"fmt"
	"io"

	"verif/engine/ev"
)

// Operation-sequence exploration of the loaders (see iccseq.go for the idea):
// alphabet = Load(loader, file) for a few small files of different formats and
// Drain(stream_j) of any stream returned earlier in the sequence and not yet
// drained. Every sequence up to the depth bound is executed in this process
// without resetting package state; every Load result is compared with the
// file's description and with the matching specific loader, and every Drain
// with the bytes of the file the stream belongs to. Streams may be drained long
// after other Loads have run: nothing a later call does may disturb them.
func loaderSequences(r *ev.Run, depth int, keyPrefix string, meta, replay bool) {
	seeds := smallSeeds()
	files := []Case{seeds[1], seeds[3], seeds[8], seeds[5], {Name: "text", Data: []byte("plain text, not an image; long enough to look like something: 0123456789 0123456789 0123456789"), Info: seeds[0].Info}}
	files[4].Info.Format = ""
	type op struct {
		load    bool
		inspect bool
		loader  int // index into loaders
		file    int
		handle  int
	}
	var alphabet []op
	for f := range files {
		alphabet = append(alphabet, op{load: true, loader: 3, file: f})
		if files[f].Info.Format != "" {
			alphabet = append(alphabet, op{load: true, loader: map[string]int{"PNG": 0, "JPEG": 1, "WebP": 2}[files[f].Info.Format], file: f})
		}
	}
	var seqs int64
	run := func(seq []op) {
		seqs++
		var streams []io.Reader
		var results []outcome
		var owner []int
		var drained []bool
		var trace []string
		for _, o := range seq {
			if o.load {
				f, l := &files[o.file], &loaders[o.loader]
				trace = append(trace, fmt.Sprintf("%s.Load(%s)", l.Name, f.Name))
				out, st := load(l, bytes.NewReader(f.Data))
				streams, owner, drained, results = append(streams, st), append(owner, o.file), append(drained, false), append(results, out)
				if out.Panic != "" || st == nil {
					r.Violate(keyPrefix+"/panic-or-nil-stream", fmt.Sprintf("%s panicked or returned a nil stream (%s) in the sequence %v", l.Name, out.Panic, trace), map[string]interface{}{"sequence": trace}, nil)
					return
				}
				if !meta {
					continue
				}
				if f.Info.Format == "" {
					if !out.MdNil || !out.Err {
						r.Violate(keyPrefix+"/should-fail", fmt.Sprintf("Load of a non-image returned [%s] in the sequence %v", out, trace), map[string]interface{}{"sequence": trace}, nil)
					}
					continue
				}
				in := &f.Info
				ok := !out.Err && !out.MdNil && out.Format == in.Format && out.W == in.W && out.H == in.H && out.Bits == in.Bits
				if ok && in.HasICC {
					ok = !out.ICCErr && bytes.Equal(out.ICC, in.ICC)
				}
				if ok && !in.HasICC {
					ok = out.ICCNil && !out.ICCErr
				}
				if !ok {
					r.Violate(keyPrefix+"/result-after-sequence", fmt.Sprintf("%s.Load(%s) returned [%s], expected %s %dx%d/%d icc=%dB, in the sequence %v", l.Name, f.Name, out, in.Format, in.W, in.H, in.Bits, len(in.ICC), trace), map[string]interface{}{"sequence": trace}, nil)
				}
			} else if o.inspect {
				// the ICC bytes handed out by an earlier Load must still be the file's
				f := &files[owner[o.handle]]
				trace = append(trace, fmt.Sprintf("inspect(ICC bytes returned by load #%d of %s)", o.handle+1, f.Name))
				if meta && f.Info.HasICC && !bytes.Equal(results[o.handle].ICC, f.Info.ICC) {
					r.Violate(keyPrefix+"/icc-changed-later", fmt.Sprintf("the ICC bytes returned by load #%d no longer equal the embedded profile after the sequence %v", o.handle+1, trace), map[string]interface{}{"sequence": trace}, nil)
				}
			} else {
				f := &files[owner[o.handle]]
				trace = append(trace, fmt.Sprintf("drain(stream #%d of %s)", o.handle+1, f.Name))
				drained[o.handle] = true
				if !replay {
					continue
				}
				var got []byte
				var err error
				okT, pn := withTimeoutShort(func() { got, err = io.ReadAll(streams[o.handle]) })
				if !okT {
					seqHung = true
				}
				if !okT || pn != nil || err != nil || !bytes.Equal(got, f.Data) {
					r.Violate(keyPrefix+"/replay-after-sequence", fmt.Sprintf("stream #%d replays %d bytes (err %v, returned %v, panic %v), its input has %d, in the sequence %v", o.handle+1, len(got), err, okT, pn, len(f.Data), trace), map[string]interface{}{"sequence": trace}, nil)
				}
			}
		}
	}
	var rec func(seq []op, nStreams int, drainedMask int)
	rec = func(seq []op, nStreams int, drainedMask int) {
		if len(seq) > 0 {
			run(seq)
		}
		if len(seq) == depth || r.NViolations() > 25 || seqHung {
			return
		}
		for _, a := range alphabet {
			rec(append(append([]op(nil), seq...), a), nStreams+1, drainedMask)
		}
		if meta && len(seq) > 0 && len(seq) == depth-1 {
			// inspections only as the last step (they do not change state)
			for h := 0; h < nStreams; h++ {
				run(append(append([]op(nil), seq...), op{inspect: true, handle: h}))
			}
		}
		for h := 0; h < nStreams; h++ {
			if drainedMask&(1<<uint(h)) == 0 {
				rec(append(append([]op(nil), seq...), op{handle: h}), nStreams, drainedMask|1<<uint(h))
			}
		}
	}
	rec(nil, 0, 0)
	// long periodic sequences: every ordered pair of Load operations repeated 120
	// times, draining each stream two periods late and inspecting early results at the end
	for ai, a := range alphabet {
		for bi, b := range alphabet {
			if ai == bi {
				continue
			}
			var seq []op
			n := 0
			for rep := 0; rep < 120; rep++ {
				seq = append(seq, a, b)
				n += 2
				if rep >= 2 {
					seq = append(seq, op{handle: n - 6}, op{handle: n - 5})
				}
			}
			seq = append(seq, op{inspect: true, handle: 0}, op{inspect: true, handle: 1}, op{inspect: true, handle: n - 1})
			run(seq)
			if r.NViolations() > 25 || seqHung {
				break
			}
		}
	}
	r.Eval(seqs)
	r.DistinctN(seqs)
	r.Set(keyPrefix+"_sequences", seqs)
}

// seqHung: a drain that did not return; further sequences would each wait for the time limit.
var seqHung bool

func withTimeoutShort(f func()) (bool, interface{}) {
	return withTimeout(60e9, f)
}
