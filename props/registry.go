package props

import (
	"bytes"
	"encoding/json"
	"fmt"
	"os"
	"os/exec"
	"path/filepath"
	"strings"

	"verif/engine/ev"
)

// Registry maps property ids to their checks.
var Registry = map[string]func(tier string){
	"C01": C01,
	"C02": C02,
	"C03": C03,
	"C04": C04,
	"C05": C05,
	"C06": C06,
	"C07": C07,
	"C08": C08,
	"C09": C09,
	"C10": C10,
	"C11": C11,
	"C12": C12,
	"C13": C13,
	"C14": C14,
	"C15": C15,
	"C16": C16,
	"C17": C17,
	"C18": C18,
	"C19": C19,
	"C20": C20,
}

// Worker is the entry point of re-exec'd worker processes (C09).
func Worker(args []string) {
	if len(args) >= 6 && args[0] == "c09" {
		c09Worker(args[1:])
		return
	}
	fmt.Fprintln(os.Stderr, "unknown worker", args)
	os.Exit(2)
}

// Replay re-executes a recorded violation: the checks enumerate their case
// spaces deterministically, so the recorded case is reached again by re-running
// the check of the recorded tier; the replay succeeds (exit 1, VIOLATION line)
// iff a violation with the recorded key is reported again.
func Replay(id, path string) {
	b, err := os.ReadFile(path)
	if err != nil {
		fmt.Fprintln(os.Stderr, err)
		os.Exit(2)
	}
	var rec struct {
		Property, Tier, Key, Desc string
	}
	if err := json.Unmarshal(b, &rec); err != nil || rec.Key == "" {
		fmt.Fprintln(os.Stderr, "not a replay file:", err)
		os.Exit(2)
	}
	if rec.Tier == "" {
		rec.Tier = "quick"
	}
	dir, _ := os.MkdirTemp(filepath.Join(ev.Root(), ".work"), "replay-")
	defer os.RemoveAll(dir)
	cmd := exec.Command(os.Args[0], id, rec.Tier)
	cmd.Env = append(os.Environ(), "VERIF_EVIDENCE_DIR="+dir, "VERIF_REPLAY_DIR="+dir)
	out, _ := cmd.CombinedOutput()
	fmt.Printf("recorded: key=%s %s\n", rec.Key, rec.Desc)
	if bytes.Contains(out, []byte("key="+rec.Key+" ")) {
		for _, l := range strings.Split(string(out), "\n") {
			if strings.Contains(l, "key="+rec.Key+" ") {
				fmt.Println("reproduced:" + l)
			}
		}
		fmt.Printf("VIOLATION property=%s replay=%s\n", id, path)
		os.RemoveAll(dir)
		os.Exit(1)
	}
	fmt.Println("not reproduced on the current tree")
	os.RemoveAll(dir)
	os.Exit(0)
}
