package props

import (
	"fmt"
	"os"
)

// Registry maps property ids to their checks.
var Registry = map[string]func(tier string){
	"C01": C01,
	"C02": C02,
	"C03": C03,
	"C04": C04,
	"C05": C05,
	"C06": C06,
	"C07": C07,
	"C08": C08,
	"C09": C09,
	"C10": C10,
	"C11": C11,
	"C12": C12,
	"C13": C13,
	"C14": C14,
	"C15": C15,
	"C16": C16,
	"C17": C17,
	"C18": C18,
	"C19": C19,
	"C20": C20,
}

// Worker is the entry point of re-exec'd worker processes (C09).
func Worker(args []string) {
	if len(args) >= 6 && args[0] == "c09" {
		c09Worker(args[1:])
		return
	}
	fmt.Fprintln(os.Stderr, "unknown worker", args)
	os.Exit(2)
}

// Replay re-executes a recorded violation.
func Replay(id, path string) {
	fmt.Fprintln(os.Stderr, "replay not implemented for", id)
	os.Exit(2)
}
