package props

import (
	"bytes"
	"fmt"
	"os"
	"path/filepath"
	"sort"

	"verif/engine/ev"
	"verif/gen"
)

// smallSeeds: one small well-formed file per format variant.
func smallSeeds() []Case {
	var out []Case
	idat := []byte{0x78, 0x9c, 0x63, 0x60, 0x60, 0x60, 0, 0, 0, 4, 0, 1}
	{
		spec := gen.PNGSpec{W: 2, H: 2, BitDepth: 8, ColorType: 2, Pre: []gen.PNGChunk{pngAncillary("gAMA")}, IDAT: idat}
		d, i := spec.Build(nil, -1)
		out = append(out, Case{"seed png", d, i})
		prof := testProfile(90, "ramp")
		spec.Pre = []gen.PNGChunk{pngAncillary("sRGB"), {Type: "iCCP", Data: gen.ICCPChunk("seed", prof, 6)}, pngAncillary("tEXt")}
		d, i = spec.Build(prof, 1)
		out = append(out, Case{"seed png+iCCP", d, i})
	}
	mkJ := func(name string, before, after []gen.JPEGSeg) {
		spec := gen.JPEGSpec{SOFMarker: 0xC0, Precision: 8, W: 48, H: 32, Comps: jpegComps(3, []byte{2, 2, 1, 1, 1, 1}), Before: before, After: after, Scan: []byte{0xAB, 0xFF, 0x00, 0xCD, 0x12}}
		d, evs := spec.Build()
		out = append(out, Case{name, d, gen.JPEGModel(spec, evs)})
	}
	mkJ("seed jpeg", []gen.JPEGSeg{jpegSegByName("APP0"), jpegSegByName("DQT")}, []gen.JPEGSeg{jpegSegByName("DHT")})
	mkJ("seed jpeg+ICC1", []gen.JPEGSeg{jpegSegByName("APP0"), gen.ICCSeg(1, 1, testProfile(70, "lcg"))}, nil)
	p2 := testProfile(110, "lcg")
	mkJ("seed jpeg+ICC2", []gen.JPEGSeg{gen.ICCSeg(2, 2, p2[60:])}, []gen.JPEGSeg{jpegSegByName("COM"), gen.ICCSeg(1, 2, p2[:60])})
	{
		d, i := gen.WebPVP8(20, 10, 0, 0, []byte{1, 2, 3, 4, 5, 6, 7, 8}, 0)
		out = append(out, Case{"seed webp VP8", d, i})
		d, i = gen.WebPVP8L(19, 9, true, []byte{1, 2, 3, 4, 5}, 0)
		out = append(out, Case{"seed webp VP8L", d, i})
		inner := d[12:]
		d, i = gen.WebPVP8X(0x10, 19, 9, nil, inner)
		out = append(out, Case{"seed webp VP8X", d, i})
		d, i = gen.WebPVP8X(0x30, 19, 9, testProfile(75, "lcg"), inner)
		out = append(out, Case{"seed webp VP8X+ICCP", d, i})
	}
	return out
}

// corruptSeeds: one variant per parser error branch (expected outcome unknown;
// used where the oracle is differential or structural).
func corruptSeeds() []Case {
	var out []Case
	seeds := smallSeeds()
	mut := func(name string, base Case, f func(b []byte) []byte) {
		d := f(append([]byte(nil), base.Data...))
		out = append(out, Case{name, d, gen.Info{Format: base.Info.Format}})
	}
	mut("png bad signature", seeds[0], func(b []byte) []byte { b[1] = 'Q'; return b })
	mut("png IHDR length 5", seeds[0], func(b []byte) []byte { b[11] = 5; return b })
	mut("png iCCP compression method 1", seeds[1], func(b []byte) []byte {
		for i := 0; i+5 < len(b); i++ {
			if string(b[i:i+5]) == "seed\x00" {
				b[i+5] = 1
			}
		}
		return b
	})
	mut("png iCCP no terminator", seeds[1], func(b []byte) []byte {
		for i := 0; i+5 < len(b); i++ {
			if string(b[i:i+5]) == "seed\x00" {
				b[i+4] = 'x'
			}
		}
		return b
	})
	// damage inside the compressed profile, with further chunks following: the
	// parser has to stay aligned on the chunk stream whatever inflate consumed
	iccpSpan := func(b []byte) (z0, z1 int) {
		j := bytes.Index(b, []byte("iCCP"))
		n := int(b[j-4])<<24 | int(b[j-3])<<16 | int(b[j-2])<<8 | int(b[j-1])
		return bytes.Index(b, []byte("seed\x00")) + 6, j + 4 + n
	}
	mut("png iCCP not a zlib stream", seeds[1], func(b []byte) []byte { z0, _ := iccpSpan(b); b[z0], b[z0+1] = 0, 0; return b })
	mut("png iCCP zlib FLG check bits wrong", seeds[1], func(b []byte) []byte { z0, _ := iccpSpan(b); b[z0+1] ^= 1; return b })
	mut("png iCCP reserved deflate block type", seeds[1], func(b []byte) []byte { z0, _ := iccpSpan(b); b[z0+2] |= 0x06; return b })
	mut("png iCCP deflate data damaged in the middle", seeds[1], func(b []byte) []byte {
		z0, z1 := iccpSpan(b)
		b[(z0+z1)/2] ^= 0xFF
		b[(z0+z1)/2+1] ^= 0xFF
		return b
	})
	mut("png iCCP adler32 wrong", seeds[1], func(b []byte) []byte { _, z1 := iccpSpan(b); b[z1-1] ^= 0x55; return b })
	mut("png no IHDR", seeds[0], func(b []byte) []byte { copy(b[12:], "iHDR"); return b })
	mut("png chunk length huge", seeds[0], func(b []byte) []byte { b[33], b[34] = 0xFF, 0xFF; return b })
	mut("jpeg no SOI", seeds[2], func(b []byte) []byte { b[1] = 0xD9; return b })
	mut("jpeg bad marker id", seeds[2], func(b []byte) []byte { b[2] = 0x00; return b })
	mut("jpeg unknown marker", seeds[2], func(b []byte) []byte { b[3] = 0xC1; return b })
	mut("jpeg segment length 0", seeds[2], func(b []byte) []byte { b[4], b[5] = 0, 0; return b })
	mut("jpeg SOF too short", seeds[2], func(b []byte) []byte {
		for i := 0; i+3 < len(b); i++ {
			if b[i] == 0xFF && b[i+1] == 0xC0 {
				b[i+2], b[i+3] = 0, 4
			}
		}
		return b
	})
	mut("jpeg no SOF", seeds[2], func(b []byte) []byte {
		for i := 0; i+1 < len(b); i++ {
			if b[i] == 0xFF && b[i+1] == 0xC0 {
				b[i+1] = 0xFE
			}
		}
		return b
	})
	mut("jpeg ICC chunk missing", seeds[4], func(b []byte) []byte {
		for i := 0; i+14 < len(b); i++ {
			if string(b[i:i+12]) == "ICC_PROFILE\x00" && b[i+12] == 1 {
				b[i] = 'X'
			}
		}
		return b
	})
	mut("webp not RIFF", seeds[5], func(b []byte) []byte { b[0] = 'X'; return b })
	mut("webp not WEBP", seeds[5], func(b []byte) []byte { b[8] = 'X'; return b })
	mut("webp unknown chunk", seeds[5], func(b []byte) []byte { b[15] = 'Q'; return b })
	mut("webp VP8 bad start code", seeds[5], func(b []byte) []byte { b[23] = 0; return b })
	mut("webp VP8L bad signature", seeds[6], func(b []byte) []byte { b[20] = 0; return b })
	mut("webp VP8X wrong length", seeds[7], func(b []byte) []byte { b[16] = 11; return b })
	mut("webp ICCP missing", seeds[8], func(b []byte) []byte { copy(b[30:], "XXXX"); return b })
	mut("webp ICCP length huge", seeds[8], func(b []byte) []byte { b[36], b[37] = 0xFF, 0xFF; return b })
	out = append(out, Case{"empty input", nil, gen.Info{}})
	out = append(out, Case{"one byte", []byte{0x89}, gen.Info{}})
	out = append(out, Case{"text", []byte("hello, this is not an image at all, just some text\n"), gen.Info{}})
	return out
}

// repoImages loads the repository's own test images.
func repoImages() []Case {
	dir := filepath.Join(ev.Repo(), "test-images")
	ents, err := os.ReadDir(dir)
	if err != nil {
		return nil
	}
	var out []Case
	for _, e := range ents {
		b, err := os.ReadFile(filepath.Join(dir, e.Name()))
		if err != nil {
			continue
		}
		f := "JPEG"
		switch filepath.Ext(e.Name()) {
		case ".png":
			f = "PNG"
		case ".webp":
			f = "WebP"
		}
		out = append(out, Case{"repo " + e.Name(), b, gen.Info{Format: f}})
	}
	sort.Slice(out, func(i, j int) bool { return out[i].Name < out[j].Name })
	return out
}

func caseList(cs []Case) string { return fmt.Sprintf("%d files", len(cs)) }
