package props

import (
	"image"
	"image/color"
	"image/draw"

	"github.com/mandykoh/prism/adobergb"
	"github.com/mandykoh/prism/ciexyy"
	"github.com/mandykoh/prism/ciexyz"
	"github.com/mandykoh/prism/displayp3"
	"github.com/mandykoh/prism/linear"
	"github.com/mandykoh/prism/prophotorgb"
	"github.com/mandykoh/prism/srgb"

	"verif/refs"
)

// Space is a uniform view of one of the four RGB packages.
type Space struct {
	Name  string
	Curve refs.Curve
	Pub   refs.Primaries

	// per-component coders (nil for displayp3, which exports none)
	From8  func(uint8) float32
	From16 func(uint16) float32
	To8    func(float32) uint8
	To16   func(float32) uint16

	FromNRGBA        func(color.NRGBA) (linear.RGB, float32)
	FromRGBA         func(color.RGBA) (linear.RGB, float32)
	FromEncodedColor func(color.Color) (linear.RGB, float32)
	FromLinearColor  func(color.Color) (linear.RGB, float32)
	ToNRGBA          func(linear.RGB, float32) color.NRGBA
	ToRGBA           func(linear.RGB, float32) color.RGBA
	ToRGBA64         func(linear.RGB, float32) color.RGBA64
	ToXYZ            func(linear.RGB) ciexyz.Color
	FromXYZ          func(ciexyz.Color) linear.RGB
	Linearise        func(color.Color) color.RGBA64
	Encode           func(color.Color) color.RGBA64
	LineariseImage   func(dst draw.Image, src image.Image, parallelism int)
	EncodeImage      func(dst draw.Image, src image.Image, parallelism int)

	PrimR, PrimG, PrimB, White func() ciexyy.Color
}

var Spaces = []Space{
	{
		Name: "srgb", Curve: refs.SRGB, Pub: refs.SRGBpub,
		From8: srgb.From8Bit, From16: srgb.From16Bit, To8: srgb.To8Bit, To16: srgb.To16Bit,
		FromNRGBA:        func(c color.NRGBA) (linear.RGB, float32) { v, a := srgb.ColorFromNRGBA(c); return v.RGB, a },
		FromRGBA:         func(c color.RGBA) (linear.RGB, float32) { v, a := srgb.ColorFromRGBA(c); return v.RGB, a },
		FromEncodedColor: func(c color.Color) (linear.RGB, float32) { v, a := srgb.ColorFromEncodedColor(c); return v.RGB, a },
		FromLinearColor:  func(c color.Color) (linear.RGB, float32) { v, a := srgb.ColorFromLinearColor(c); return v.RGB, a },
		ToNRGBA:          func(c linear.RGB, a float32) color.NRGBA { return srgb.Color{RGB: c}.ToNRGBA(a) },
		ToRGBA:           func(c linear.RGB, a float32) color.RGBA { return srgb.Color{RGB: c}.ToRGBA(a) },
		ToRGBA64:         func(c linear.RGB, a float32) color.RGBA64 { return srgb.Color{RGB: c}.ToRGBA64(a) },
		ToXYZ:            func(c linear.RGB) ciexyz.Color { return srgb.Color{RGB: c}.ToXYZ() },
		FromXYZ:          func(c ciexyz.Color) linear.RGB { return srgb.ColorFromXYZ(c).RGB },
		Linearise:        srgb.LineariseColor, Encode: srgb.EncodeColor, LineariseImage: srgb.LineariseImage, EncodeImage: srgb.EncodeImage,
		PrimR: func() ciexyy.Color { return srgb.PrimaryRed }, PrimG: func() ciexyy.Color { return srgb.PrimaryGreen },
		PrimB: func() ciexyy.Color { return srgb.PrimaryBlue }, White: func() ciexyy.Color { return srgb.StandardWhitePoint },
	},
	{
		Name: "adobergb", Curve: refs.Adobe, Pub: refs.Adobepub,
		From8: adobergb.From8Bit, From16: adobergb.From16Bit, To8: adobergb.To8Bit, To16: adobergb.To16Bit,
		FromNRGBA:        func(c color.NRGBA) (linear.RGB, float32) { v, a := adobergb.ColorFromNRGBA(c); return v.RGB, a },
		FromRGBA:         func(c color.RGBA) (linear.RGB, float32) { v, a := adobergb.ColorFromRGBA(c); return v.RGB, a },
		FromEncodedColor: func(c color.Color) (linear.RGB, float32) { v, a := adobergb.ColorFromEncodedColor(c); return v.RGB, a },
		FromLinearColor:  func(c color.Color) (linear.RGB, float32) { v, a := adobergb.ColorFromLinearColor(c); return v.RGB, a },
		ToNRGBA:          func(c linear.RGB, a float32) color.NRGBA { return adobergb.Color{RGB: c}.ToNRGBA(a) },
		ToRGBA:           func(c linear.RGB, a float32) color.RGBA { return adobergb.Color{RGB: c}.ToRGBA(a) },
		ToRGBA64:         func(c linear.RGB, a float32) color.RGBA64 { return adobergb.Color{RGB: c}.ToRGBA64(a) },
		ToXYZ:            func(c linear.RGB) ciexyz.Color { return adobergb.Color{RGB: c}.ToXYZ() },
		FromXYZ:          func(c ciexyz.Color) linear.RGB { return adobergb.ColorFromXYZ(c).RGB },
		Linearise:        adobergb.LineariseColor, Encode: adobergb.EncodeColor, LineariseImage: adobergb.LineariseImage, EncodeImage: adobergb.EncodeImage,
		PrimR: func() ciexyy.Color { return adobergb.PrimaryRed }, PrimG: func() ciexyy.Color { return adobergb.PrimaryGreen },
		PrimB: func() ciexyy.Color { return adobergb.PrimaryBlue }, White: func() ciexyy.Color { return adobergb.StandardWhitePoint },
	},
	{
		Name: "prophotorgb", Curve: refs.ProPhoto, Pub: refs.ProPhotopub,
		From8: prophotorgb.From8Bit, From16: prophotorgb.From16Bit, To8: prophotorgb.To8Bit, To16: prophotorgb.To16Bit,
		FromNRGBA: func(c color.NRGBA) (linear.RGB, float32) { v, a := prophotorgb.ColorFromNRGBA(c); return v.RGB, a },
		FromRGBA:  func(c color.RGBA) (linear.RGB, float32) { v, a := prophotorgb.ColorFromRGBA(c); return v.RGB, a },
		FromEncodedColor: func(c color.Color) (linear.RGB, float32) {
			v, a := prophotorgb.ColorFromEncodedColor(c)
			return v.RGB, a
		},
		FromLinearColor: func(c color.Color) (linear.RGB, float32) {
			v, a := prophotorgb.ColorFromLinearColor(c)
			return v.RGB, a
		},
		ToNRGBA:   func(c linear.RGB, a float32) color.NRGBA { return prophotorgb.Color{RGB: c}.ToNRGBA(a) },
		ToRGBA:    func(c linear.RGB, a float32) color.RGBA { return prophotorgb.Color{RGB: c}.ToRGBA(a) },
		ToRGBA64:  func(c linear.RGB, a float32) color.RGBA64 { return prophotorgb.Color{RGB: c}.ToRGBA64(a) },
		ToXYZ:     func(c linear.RGB) ciexyz.Color { return prophotorgb.Color{RGB: c}.ToXYZ() },
		FromXYZ:   func(c ciexyz.Color) linear.RGB { return prophotorgb.ColorFromXYZ(c).RGB },
		Linearise: prophotorgb.LineariseColor, Encode: prophotorgb.EncodeColor, LineariseImage: prophotorgb.LineariseImage, EncodeImage: prophotorgb.EncodeImage,
		PrimR: func() ciexyy.Color { return prophotorgb.PrimaryRed }, PrimG: func() ciexyy.Color { return prophotorgb.PrimaryGreen },
		PrimB: func() ciexyy.Color { return prophotorgb.PrimaryBlue }, White: func() ciexyy.Color { return prophotorgb.StandardWhitePoint },
	},
	{
		Name: "displayp3", Curve: refs.P3, Pub: refs.P3pub,
		FromNRGBA:        func(c color.NRGBA) (linear.RGB, float32) { v, a := displayp3.ColorFromNRGBA(c); return v.RGB, a },
		FromRGBA:         func(c color.RGBA) (linear.RGB, float32) { v, a := displayp3.ColorFromRGBA(c); return v.RGB, a },
		FromEncodedColor: func(c color.Color) (linear.RGB, float32) { v, a := displayp3.ColorFromEncodedColor(c); return v.RGB, a },
		FromLinearColor:  func(c color.Color) (linear.RGB, float32) { v, a := displayp3.ColorFromLinearColor(c); return v.RGB, a },
		ToNRGBA:          func(c linear.RGB, a float32) color.NRGBA { return displayp3.Color{RGB: c}.ToNRGBA(a) },
		ToRGBA:           func(c linear.RGB, a float32) color.RGBA { return displayp3.Color{RGB: c}.ToRGBA(a) },
		ToRGBA64:         func(c linear.RGB, a float32) color.RGBA64 { return displayp3.Color{RGB: c}.ToRGBA64(a) },
		ToXYZ:            func(c linear.RGB) ciexyz.Color { return displayp3.Color{RGB: c}.ToXYZ() },
		FromXYZ:          func(c ciexyz.Color) linear.RGB { return displayp3.ColorFromXYZ(c).RGB },
		Linearise:        displayp3.LineariseColor, Encode: displayp3.EncodeColor, LineariseImage: displayp3.LineariseImage, EncodeImage: displayp3.EncodeImage,
		PrimR: func() ciexyy.Color { return displayp3.PrimaryRed }, PrimG: func() ciexyy.Color { return displayp3.PrimaryGreen },
		PrimB: func() ciexyy.Color { return displayp3.PrimaryBlue }, White: func() ciexyy.Color { return displayp3.StandardWhitePoint },
	},
}
