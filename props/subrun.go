package props

import (
	"encoding/json"
	"fmt"
	"os"
	"os/exec"
	"path/filepath"

	"verif/engine/ev"
)

// subRunOrder re-executes the current check in a fresh process with
// VERIF_ORDER=<order> (process-global lazy state can only be observed in one
// first-use order per process) and merges its counts and violations.
func subRunOrder(r *ev.Run, prop, tier, order string) {
	subRun(r, prop, tier, order, "VERIF_ORDER="+order)
}

// subRun re-executes the check in a child process with extra environment
// (first-use order, GOMAXPROCS, ...) and merges counts and violations under
// the label.
func subRun(r *ev.Run, prop, tier, order string, extraEnv ...string) {
	dir := filepath.Join(ev.Root(), ".work", fmt.Sprintf("sub-%d-%s", os.Getpid(), order))
	_ = os.MkdirAll(dir, 0o755)
	defer os.RemoveAll(dir)
	cmd := exec.Command(os.Args[0], prop, tier)
	cmd.Env = append(os.Environ(), "VERIF_SUBRUN="+order, "VERIF_EVIDENCE_DIR="+dir, "VERIF_REPLAY_DIR="+dir)
	cmd.Env = append(cmd.Env, extraEnv...)
	out, err := cmd.CombinedOutput()
	b, rerr := os.ReadFile(filepath.Join(dir, prop+".json"))
	if rerr != nil {
		r.Violate("subrun/"+order+"/crashed", fmt.Sprintf("child process for first-use order %q died without evidence: %v\n%s", order, err, tail(out, 2000)), nil, nil)
		return
	}
	var doc struct {
		Coverage struct {
			Evaluations   int64    `json:"evaluations"`
			Distinct      int64    `json:"distinct_nontrivial"`
			ViolationKeys []string `json:"violation_keys"`
			Exhaustive    bool     `json:"exhaustive"`
		} `json:"coverage"`
		Violations int `json:"violations"`
	}
	_ = json.Unmarshal(b, &doc)
	r.Eval(doc.Coverage.Evaluations)
	r.Set("subrun_"+order, map[string]interface{}{"evaluations": doc.Coverage.Evaluations, "violations": doc.Violations})
	for _, k := range doc.Coverage.ViolationKeys {
		r.Violate("order="+order+"/"+k, "in a child process ("+order+"): "+k, map[string]interface{}{"child": order, "env": extraEnv}, nil)
	}
	if doc.Violations > 0 && len(doc.Coverage.ViolationKeys) == 0 {
		r.Violate("order="+order, "child run reported violations:\n"+tail(out, 2000), nil, nil)
	}
}

func tail(b []byte, n int) string {
	if len(b) > n {
		b = b[len(b)-n:]
	}
	return string(b)
}
