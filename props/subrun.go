package props

import (
	"bytes"
	"encoding/json"
	"fmt"
	"os"
	"os/exec"
	"path/filepath"
	"strings"

	"verif/engine/ev"
)

// subRunOrder re-executes the current check in a fresh process with
// VERIF_ORDER=<order> (process-global lazy state can only be observed in one
// first-use order per process) and merges its counts and violations.
func subRunOrder(r *ev.Run, prop, tier, order string) {
	subRun(r, prop, tier, order, "VERIF_ORDER="+order)
}

// subRun re-executes the check in a child process with extra environment
// (first-use order, GOMAXPROCS, ...) and merges counts and violations under
// the label.
func subRun(r *ev.Run, prop, tier, order string, extraEnv ...string) {
	subRunBin(r, os.Args[0], prop, tier, order, extraEnv...)
}

// subRunArch builds the check binary for another GOARCH (386: int and uintptr
// are 32 bits, so length arithmetic that is harmless on amd64 can wrap or go
// negative) and runs the quick tier of the check with it as a child. Only from
// a top-level run. A tree that does not build for that architecture is
// recorded as a cap, not a violation.
func subRunArch(r *ev.Run, prop, arch string) {
	if os.Getenv("VERIF_SUBRUN") != "" {
		return
	}
	dir := filepath.Join(ev.Root(), ".work", fmt.Sprintf("arch-%d-%s", os.Getpid(), arch))
	_ = os.MkdirAll(dir, 0o755)
	ev.AtExit(func() { os.RemoveAll(dir) })
	bin := filepath.Join(dir, "vcheck")
	args := []string{"build"}
	if mf := os.Getenv("VERIF_MODFILE"); mf != "" {
		args = append(args, "-modfile="+mf)
	}
	args = append(args, "-o", bin, "./cmd/vcheck")
	cmd := exec.Command("go", args...)
	cmd.Dir = ev.Root()
	cmd.Env = append(goEnv(), "GOARCH="+arch)
	if out, err := cmd.CombinedOutput(); err != nil {
		r.Cap("the GOARCH=" + arch + " configuration could not be built: " + tail(out, 400))
		return
	}
	r.Rule("additional configuration: the quick tier of this check built for GOARCH=" + arch + " (32-bit int and uintptr) and run as a child process; its evaluations are added, its violations reported under order=GOARCH=" + arch)
	subRunBin(r, bin, prop, "quick", "GOARCH="+arch)
}

func subRunBin(r *ev.Run, bin, prop, tier, order string, extraEnv ...string) {
	dir := filepath.Join(ev.Root(), ".work", fmt.Sprintf("sub-%d-%s", os.Getpid(), order))
	_ = os.MkdirAll(dir, 0o755)
	defer os.RemoveAll(dir)
	cmd := exec.Command(bin, prop, tier)
	cmd.Env = append(os.Environ(), "VERIF_SUBRUN="+order, "VERIF_EVIDENCE_DIR="+dir, "VERIF_REPLAY_DIR="+dir)
	cmd.Env = append(cmd.Env, extraEnv...)
	out, err := cmd.CombinedOutput()
	b, rerr := os.ReadFile(filepath.Join(dir, prop+".json"))
	if rerr != nil {
		r.Violate("subrun/"+order+"/crashed", fmt.Sprintf("child process for first-use order %q died without evidence: %v\n%s", order, err, tail(out, 2000)), nil, nil)
		return
	}
	var doc struct {
		Coverage struct {
			Evaluations   int64    `json:"evaluations"`
			Distinct      int64    `json:"distinct_nontrivial"`
			ViolationKeys []string `json:"violation_keys"`
			Exhaustive    bool     `json:"exhaustive"`
		} `json:"coverage"`
		Violations int `json:"violations"`
	}
	_ = json.Unmarshal(b, &doc)
	r.Eval(doc.Coverage.Evaluations)
	r.Set("subrun_"+order, map[string]interface{}{"evaluations": doc.Coverage.Evaluations, "violations": doc.Violations})
	for _, k := range doc.Coverage.ViolationKeys {
		r.Violate("order="+order+"/"+k, "in a child process ("+order+"): "+k, map[string]interface{}{"child": order, "env": extraEnv}, nil)
	}
	if doc.Violations > 0 && len(doc.Coverage.ViolationKeys) == 0 {
		r.Violate("order="+order, "child run reported violations:\n"+tail(out, 2000), nil, nil)
	}
}

func tail(b []byte, n int) string {
	if len(b) > n {
		b = b[len(b)-n:]
	}
	return string(b)
}

// crashGuard runs the rest of the check in a child process. The image helpers
// run their work in goroutines the library spawns itself: a panic there cannot
// be recovered by the caller and kills the process, which is itself a
// violation (it crashed its caller) and must be reported as one rather than
// lose the check. In the child it returns immediately; in the parent it never
// returns.
func crashGuard(prop, tier, level string) {
	if os.Getenv("VERIF_CRASHGUARD") != "" {
		return
	}
	cmd := exec.Command(os.Args[0], prop, tier)
	cmd.Env = append(os.Environ(), "VERIF_CRASHGUARD=1")
	cmd.Stdout = os.Stdout
	var stderr bytes.Buffer
	cmd.Stderr = &stderr
	err := cmd.Run()
	code := 0
	if err != nil {
		code = 2
		if ee, ok := err.(*exec.ExitError); ok {
			code = ee.ExitCode()
		}
	}
	if code == 0 || code == 1 {
		os.Stderr.Write(stderr.Bytes())
		os.Exit(code)
	}
	r := ev.Begin(prop, tier, level)
	r.NotExhaustive()
	r.Rule("the enumeration runs in a child process; the child died")
	st := stderr.String()
	first := st
	if i := strings.Index(st, "goroutine "); i > 0 {
		first = st[:i]
	}
	where := ""
	for _, l := range strings.Split(st, "\n") {
		if strings.Contains(l, ".go:") && !strings.Contains(l, "/runtime/") && !strings.Contains(l, "/verif/") {
			where = strings.TrimSpace(l)
			break
		}
	}
	r.Eval(1)
	r.DistinctN(2)
	r.Violate("process-crash", fmt.Sprintf("the process running the checks was killed by a panic the caller cannot recover (exit %d): %s at %s", code, strings.TrimSpace(tail([]byte(first), 300)), where),
		map[string]interface{}{"stderr_tail": tail(stderr.Bytes(), 3000)}, nil)
	r.Finish()
}
