// Package refs holds the reference models: boring float64 code written from
// the standards, never from the package under test.
package refs

import "math"

// ---- transfer functions ---------------------------------------------------

type Curve struct {
	Name string
	EOTF func(e float64) float64 // encoded [0,1] -> linear
	OETF func(l float64) float64 // linear [0,1] -> encoded
}

// IEC 61966-2-1 sRGB (also used by Display P3).
func srgbEOTF(e float64) float64 {
	if e <= 0.04045 {
		return e / 12.92
	}
	return math.Pow((e+0.055)/1.055, 2.4)
}
func srgbOETF(l float64) float64 {
	if l <= 0.0031308 {
		return l * 12.92
	}
	return 1.055*math.Pow(l, 1/2.4) - 0.055
}

// Adobe RGB (1998): pure power 2.19921875 = 563/256.
func adobeEOTF(e float64) float64 { return math.Pow(e, 563.0/256.0) }
func adobeOETF(l float64) float64 { return math.Pow(l, 256.0/563.0) }

// ROMM / ProPhoto RGB (ISO 22028-2): Et = 1/512, slope 16, gamma 1.8.
func prophotoEOTF(e float64) float64 {
	if e < 16.0/512.0 {
		return e / 16
	}
	return math.Pow(e, 1.8)
}
func prophotoOETF(l float64) float64 {
	if l < 1.0/512.0 {
		return 16 * l
	}
	return math.Pow(l, 1/1.8)
}

var (
	SRGB     = Curve{"srgb", srgbEOTF, srgbOETF}
	Adobe    = Curve{"adobergb", adobeEOTF, adobeOETF}
	ProPhoto = Curve{"prophotorgb", prophotoEOTF, prophotoOETF}
	P3       = Curve{"displayp3", srgbEOTF, srgbOETF}
)

// ---- chromaticities ---------------------------------------------------------

type XY struct{ X, Y float64 }

type Primaries struct {
	Name    string
	R, G, B XY
	W       XY
}

// Published values (4 decimals where the standards give 4).
var (
	D65pub = XY{0.3127, 0.3290}
	D50pub = XY{0.3457, 0.3585}

	SRGBpub     = Primaries{"srgb", XY{0.64, 0.33}, XY{0.30, 0.60}, XY{0.15, 0.06}, D65pub}
	Adobepub    = Primaries{"adobergb", XY{0.64, 0.33}, XY{0.21, 0.71}, XY{0.15, 0.06}, D65pub}
	ProPhotopub = Primaries{"prophotorgb", XY{0.7347, 0.2653}, XY{0.1596, 0.8404}, XY{0.0366, 0.0001}, D50pub}
	P3pub       = Primaries{"displayp3", XY{0.68, 0.32}, XY{0.265, 0.69}, XY{0.15, 0.06}, D65pub}
)

// Further published RGB spaces (alphabet for C20).
var PublishedSpaces = []Primaries{
	SRGBpub, Adobepub, ProPhotopub, P3pub,
	{"rec2020", XY{0.708, 0.292}, XY{0.170, 0.797}, XY{0.131, 0.046}, D65pub},
	{"ntsc1953", XY{0.67, 0.33}, XY{0.21, 0.71}, XY{0.14, 0.08}, XY{0.3101, 0.3162}},
	{"pal-secam", XY{0.64, 0.33}, XY{0.29, 0.60}, XY{0.15, 0.06}, D65pub},
	{"smpte-c", XY{0.630, 0.340}, XY{0.310, 0.595}, XY{0.155, 0.070}, D65pub},
	{"apple-rgb", XY{0.625, 0.340}, XY{0.280, 0.595}, XY{0.155, 0.070}, D65pub},
	{"eci-rgb-v2", XY{0.67, 0.33}, XY{0.21, 0.71}, XY{0.14, 0.08}, D50pub},
	{"wide-gamut", XY{0.735, 0.265}, XY{0.115, 0.826}, XY{0.157, 0.018}, D50pub},
	{"cie-rgb", XY{0.7347, 0.2653}, XY{0.2738, 0.7174}, XY{0.1666, 0.0089}, XY{1.0 / 3, 1.0 / 3}},
	{"dci-p3", XY{0.68, 0.32}, XY{0.265, 0.69}, XY{0.15, 0.06}, XY{0.314, 0.351}},
	{"best-rgb", XY{0.7347, 0.2653}, XY{0.2150, 0.7750}, XY{0.1300, 0.0350}, D50pub},
	{"beta-rgb", XY{0.6888, 0.3112}, XY{0.1986, 0.7551}, XY{0.1265, 0.0352}, D50pub},
	{"bruce-rgb", XY{0.64, 0.33}, XY{0.28, 0.65}, XY{0.15, 0.06}, D65pub},
	{"colormatch", XY{0.630, 0.340}, XY{0.295, 0.605}, XY{0.150, 0.075}, D50pub},
	{"don-rgb-4", XY{0.696, 0.300}, XY{0.215, 0.765}, XY{0.130, 0.035}, D50pub},
	{"ekta-space-ps5", XY{0.695, 0.305}, XY{0.260, 0.700}, XY{0.110, 0.005}, D50pub},
	{"aces-ap1", XY{0.713, 0.293}, XY{0.165, 0.830}, XY{0.128, 0.044}, XY{0.32168, 0.33767}},
	{"rec601-525", XY{0.630, 0.340}, XY{0.310, 0.595}, XY{0.155, 0.070}, D65pub},
}

// CIE standard illuminants (2° observer chromaticities).
var Illuminants = []struct {
	Name string
	XY   XY
}{
	{"A", XY{0.44757, 0.40745}}, {"B", XY{0.34842, 0.35161}}, {"C", XY{0.31006, 0.31616}},
	{"D50", XY{0.34567, 0.35850}}, {"D55", XY{0.33242, 0.34743}}, {"D65", XY{0.31271, 0.32902}},
	{"D75", XY{0.29902, 0.31485}}, {"E", XY{1.0 / 3, 1.0 / 3}}, {"F2", XY{0.37208, 0.37529}},
	{"F7", XY{0.31292, 0.32933}}, {"F11", XY{0.38052, 0.37713}},
}

// ---- linear algebra (row-major, independent of the package's column-major) ---

type M3 [3][3]float64 // M3[row][col]
type V3 [3]float64

func (m M3) MulV(v V3) V3 {
	var o V3
	for r := 0; r < 3; r++ {
		o[r] = m[r][0]*v[0] + m[r][1]*v[1] + m[r][2]*v[2]
	}
	return o
}

func (m M3) Mul(o M3) M3 {
	var p M3
	for r := 0; r < 3; r++ {
		for c := 0; c < 3; c++ {
			p[r][c] = m[r][0]*o[0][c] + m[r][1]*o[1][c] + m[r][2]*o[2][c]
		}
	}
	return p
}

func (m M3) T() M3 {
	var p M3
	for r := 0; r < 3; r++ {
		for c := 0; c < 3; c++ {
			p[r][c] = m[c][r]
		}
	}
	return p
}

func Identity() M3 { return M3{{1, 0, 0}, {0, 1, 0}, {0, 0, 1}} }

// Inv inverts by Gauss-Jordan elimination with partial pivoting. ok is false
// when a pivot is exactly zero.
func (m M3) Inv() (M3, bool) {
	var a [3][6]float64
	for r := 0; r < 3; r++ {
		for c := 0; c < 3; c++ {
			a[r][c] = m[r][c]
		}
		a[r][3+r] = 1
	}
	for col := 0; col < 3; col++ {
		p := col
		for r := col + 1; r < 3; r++ {
			if math.Abs(a[r][col]) > math.Abs(a[p][col]) {
				p = r
			}
		}
		if a[p][col] == 0 {
			return M3{}, false
		}
		a[col], a[p] = a[p], a[col]
		pv := a[col][col]
		for c := 0; c < 6; c++ {
			a[col][c] /= pv
		}
		for r := 0; r < 3; r++ {
			if r == col {
				continue
			}
			f := a[r][col]
			if f == 0 {
				continue
			}
			for c := 0; c < 6; c++ {
				a[r][c] -= f * a[col][c]
			}
		}
	}
	var o M3
	for r := 0; r < 3; r++ {
		for c := 0; c < 3; c++ {
			o[r][c] = a[r][3+c]
		}
	}
	return o, true
}

func (m M3) Det() float64 {
	return m[0][0]*(m[1][1]*m[2][2]-m[1][2]*m[2][1]) -
		m[0][1]*(m[1][0]*m[2][2]-m[1][2]*m[2][0]) +
		m[0][2]*(m[1][0]*m[2][1]-m[1][1]*m[2][0])
}

func (m M3) NormInf() float64 {
	n := 0.0
	for r := 0; r < 3; r++ {
		s := math.Abs(m[r][0]) + math.Abs(m[r][1]) + math.Abs(m[r][2])
		if s > n {
			n = s
		}
	}
	return n
}

// Cond is the infinity-norm condition number (Inf when singular).
func (m M3) Cond() float64 {
	inv, ok := m.Inv()
	if !ok {
		return math.Inf(1)
	}
	return m.NormInf() * inv.NormInf()
}

func MaxAbsDiff(a, b M3) float64 {
	d := 0.0
	for r := 0; r < 3; r++ {
		for c := 0; c < 3; c++ {
			if x := math.Abs(a[r][c] - b[r][c]); x > d || math.IsNaN(x) {
				d = x
				if math.IsNaN(x) {
					return math.Inf(1)
				}
			}
		}
	}
	return d
}

// ---- colorimetry ------------------------------------------------------------

// XYZFromXYY converts chromaticity + luminance to XYZ.
func XYZFromXYY(x, y, Y float64) V3 {
	return V3{x * Y / y, Y, (1 - x - y) * Y / y}
}

// det3 of columns a,b,c.
func det3(a, b, c V3) float64 {
	return a[0]*(b[1]*c[2]-b[2]*c[1]) - b[0]*(a[1]*c[2]-a[2]*c[1]) + c[0]*(a[1]*b[2]-a[2]*b[1])
}

// RGBToXYZ derives the RGB->XYZ matrix from primaries and white by Cramer's
// rule (deliberately not the adjugate inverse used by the package).
func RGBToXYZ(r, g, b, w XY) M3 {
	pr, pg, pb := XYZFromXYY(r.X, r.Y, 1), XYZFromXYY(g.X, g.Y, 1), XYZFromXYY(b.X, b.Y, 1)
	pw := XYZFromXYY(w.X, w.Y, 1)
	d := det3(pr, pg, pb)
	sr := det3(pw, pg, pb) / d
	sg := det3(pr, pw, pb) / d
	sb := det3(pr, pg, pw) / d
	var m M3
	for i := 0; i < 3; i++ {
		m[i][0] = pr[i] * sr
		m[i][1] = pg[i] * sg
		m[i][2] = pb[i] * sb
	}
	return m
}

// Bradford cone response matrix (Lam 1985), row-major.
var Bradford = M3{
	{0.8951, 0.2664, -0.1614},
	{-0.7502, 1.7135, 0.0367},
	{0.0389, -0.0685, 1.0296},
}

// BradfordAdapt is the linear Bradford adaptation matrix from white s to d (XYZ).
func BradfordAdapt(s, d V3) M3 {
	cs, cd := Bradford.MulV(s), Bradford.MulV(d)
	D := M3{{cd[0] / cs[0], 0, 0}, {0, cd[1] / cs[1], 0}, {0, 0, cd[2] / cs[2]}}
	inv, _ := Bradford.Inv()
	return inv.Mul(D).Mul(Bradford)
}

// CIE 1976 L*a*b*.
const (
	LabEps   = 216.0 / 24389.0
	LabKappa = 24389.0 / 27.0
)

func labF(t float64) float64 {
	if t > LabEps {
		return math.Cbrt(t)
	}
	return (LabKappa*t + 16) / 116
}

func XYZToLab(c, w V3) V3 {
	fx, fy, fz := labF(c[0]/w[0]), labF(c[1]/w[1]), labF(c[2]/w[2])
	return V3{116*fy - 16, 500 * (fx - fy), 200 * (fy - fz)}
}

func labFinv(f float64) float64 {
	if f3 := f * f * f; f3 > LabEps {
		return f3
	}
	return (116*f - 16) / LabKappa
}

func LabToXYZ(lab, w V3) V3 {
	fy := (lab[0] + 16) / 116
	fx := lab[1]/500 + fy
	fz := fy - lab[2]/200
	return V3{labFinv(fx) * w[0], labFinv(fy) * w[1], labFinv(fz) * w[2]}
}
