package refs

import "time"

// RefHeader is the ICC.1 profile header decoded independently from the
// specification's field table (offset, width, meaning).
type RefHeader struct {
	Size                                   uint32
	PreferredCMM                           uint32
	Major, MinorRev                        byte
	Class                                  uint32
	ColorSpace                             uint32
	PCS                                    uint32
	Year, Month, Day, Hour, Minute, Second uint16
	Signature                              uint32
	Platform                               uint32
	Flags                                  uint32
	Embedded                               bool // bit 0, counted from the least significant bit
	NotIndependent                         bool // bit 1
	Manufacturer                           uint32
	Model                                  uint32
	Attributes                             uint64
	Intent                                 uint32
	Illuminant                             [3]uint32
	Creator                                uint32
	ID                                     [16]byte
}

func be16(b []byte) uint16 { return uint16(b[0])<<8 | uint16(b[1]) }
func be32(b []byte) uint32 {
	return uint32(b[0])<<24 | uint32(b[1])<<16 | uint32(b[2])<<8 | uint32(b[3])
}

func DecodeHeader(h []byte) RefHeader {
	var r RefHeader
	r.Size = be32(h[0:])
	r.PreferredCMM = be32(h[4:])
	r.Major, r.MinorRev = h[8], h[9]
	r.Class = be32(h[12:])
	r.ColorSpace = be32(h[16:])
	r.PCS = be32(h[20:])
	r.Year, r.Month, r.Day = be16(h[24:]), be16(h[26:]), be16(h[28:])
	r.Hour, r.Minute, r.Second = be16(h[30:]), be16(h[32:]), be16(h[34:])
	r.Signature = be32(h[36:])
	r.Platform = be32(h[40:])
	r.Flags = be32(h[44:])
	r.Embedded = r.Flags&1 != 0
	r.NotIndependent = r.Flags&2 != 0
	r.Manufacturer = be32(h[48:])
	r.Model = be32(h[52:])
	r.Attributes = uint64(be32(h[56:]))<<32 | uint64(be32(h[60:]))
	r.Intent = be32(h[64:])
	r.Illuminant = [3]uint32{be32(h[68:]), be32(h[72:]), be32(h[76:])}
	r.Creator = be32(h[80:])
	copy(r.ID[:], h[84:100])
	return r
}

func daysIn(year int, m int) int {
	switch m {
	case 4, 6, 9, 11:
		return 30
	case 2:
		if year%4 == 0 && (year%100 != 0 || year%400 == 0) {
			return 29
		}
		return 28
	}
	return 31
}

// ValidDate reports whether the dateTimeNumber is a real calendar instant, and
// returns it (UTC).
func (r RefHeader) ValidDate() (time.Time, bool) {
	if r.Year < 1 || r.Year > 9999 || r.Month < 1 || r.Month > 12 || r.Day < 1 || int(r.Day) > daysIn(int(r.Year), int(r.Month)) ||
		r.Hour > 23 || r.Minute > 59 || r.Second > 59 {
		return time.Time{}, false
	}
	return time.Date(int(r.Year), time.Month(r.Month), int(r.Day), int(r.Hour), int(r.Minute), int(r.Second), 0, time.UTC), true
}
