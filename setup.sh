#!/bin/sh
# Offline setup after a fresh restore: build the harness and warm the build cache.
set -e
cd "$(dirname "$0")"
export GOFLAGS=-mod=mod GOPROXY=off GOSUMDB=off GOTOOLCHAIN=local
mkdir -p .bin evidence replays .work
go build -o .bin/vcheck ./cmd/vcheck
echo "setup ok"
