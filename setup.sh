#!/bin/sh
# Offline setup after a fresh restore: build the harness and warm the build
# caches (plain, instrumented-overlay and -race builds) so that the first check
# does not pay for them.
set -e
cd "$(dirname "$0")"
export GOFLAGS=-mod=mod GOPROXY=off GOSUMDB=off GOTOOLCHAIN=local
mkdir -p .bin evidence replays .work
go build -o .bin/vcheck ./cmd/vcheck
# warm the race-enabled standard library and the overlay build used by C11
VERIF_EVIDENCE_DIR="$PWD/.work/setup-ev" VERIF_REPLAY_DIR="$PWD/.work/setup-ev" VERIF_BUDGET_S=5 ./check C11 quick >/dev/null 2>&1 || true
rm -rf .work/setup-ev
echo "setup ok"
