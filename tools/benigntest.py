#!/usr/bin/env python3
"""Run the checks named in benign/checks.json against each benign change (correct
refactors and accuracy improvements that keep every property): any VIOLATION is a
false alarm of the machinery. Exit 1 if one is raised."""
import json, os, subprocess, sys
ROOT = "/verif"
m = json.load(open(os.path.join(ROOT, "benign/checks.json")))
bad = 0
for diff, checks in m.items():
    p = subprocess.run([sys.executable, os.path.join(ROOT, "tools/seedtest.py"), os.path.join(ROOT, "benign", diff), ",".join(checks)], capture_output=True, text=True)
    for line in p.stdout.splitlines():
        if " exit=" in line:
            ok = "MISSED" in line and "exit=0" in line
            print(("silent   " if ok else "ALARM    ") + line.strip())
            bad += 0 if ok else 1
sys.exit(1 if bad else 0)
