#!/bin/sh
# Developer helper: build the instrumented C11 harness for a tree into a scratch dir.
# usage: tools/c11dev.sh <outdir> [repo]
set -e
export GOFLAGS=-mod=mod GOPROXY=off GOSUMDB=off GOTOOLCHAIN=local
out=$1; repo=${2:-/repo}
mkdir -p "$out"
cd /verif && go run ./cmd/vinstr "$repo" "$out" /verif/engine/xsched >"$out/instr.log"
cd "$repo" && go build -overlay "$out/overlay.json" -o "$out/harness" github.com/mandykoh/prism/zverif/harness
