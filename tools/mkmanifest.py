#!/usr/bin/env python3
"""Regenerates /verif/MANIFEST.json from the table below (one source of truth)."""
import json, os, sys

ROOT = os.path.dirname(os.path.dirname(os.path.abspath(__file__)))

# id -> (category, technique, level text, level note, engine, design ref)
CHECKS = {
 "C01": ("exploration", "complete enumeration of the finite code space against a float64 reference EOTF",
         "Every 8-bit and 16-bit code of every space through every public decode entry point is executed on the real code and compared with the published EOTF evaluated in float64; the domain is finite and walked completely in both tiers, so the result is a coverage statement over the whole input space of the property.",
         "Trusts the float64 math library and the transcription of the three published curves in refs/color.go.", "benum", "5/C01"),
}

PENDING = "check not built yet in this revision (work in progress; see DESIGN.md section 5 for the plan)"

def main():
    props = [json.loads(l)["id"] for l in open(os.path.join(ROOT, "properties.jsonl"))]
    checks = []
    for pid in props:
        if pid not in CHECKS:
            continue
        cat, tech, text, note, engine, ref = CHECKS[pid]
        checks.append({
            "property_id": pid,
            "quick_cmd": "./check %s quick" % pid,
            "thorough_cmd": "./check %s thorough" % pid,
            "evidence_file": "/verif/evidence/%s.json" % pid,
            "replay_cmd_template": "./check %s --replay {path}" % pid,
            "engine": engine,
            "level_claimed": {"category": cat, "text": text, "design_ref": "DESIGN.md section " + ref},
            "level_note": note,
            "technique": tech,
        })
    na = [{"property_id": p, "reason": NOT_APPLICABLE.get(p, PENDING)} for p in props if p not in CHECKS]
    m = {
        "version": 1,
        "setup_cmd": "./setup.sh",
        "hooks": {
            "guard": "verif",
            "enable": "no hook is committed to /repo: engine A instruments a copy of the current tree at check time (cmd/vinstr) and builds it with `go build -tags verif -overlay <generated>.json`; all other engines use the public API",
            "baseline_off_cmd": "cd /repo && go test -vet=off -count=1 ./...",
            "source_commits": [],
            "add_only": True,
        },
        "engines": [
            {"name": "benum", "path": "/verif/props", "serves_properties": [p for p in props if CHECKS.get(p, (0,0,0,0,""))[4] == "benum"],
             "kind_free_text": "sharded bounded-exhaustive enumeration of inputs/configurations on the real code against independent reference models"},
            {"name": "envx", "path": "/verif/engine/envx", "serves_properties": [p for p in props if CHECKS.get(p, (0,0,0,0,""))[4] == "envx"],
             "kind_free_text": "deviation-bounded depth-first exploration of io.Reader answers (short reads, data+EOF, errors) driving the real loaders"},
            {"name": "xsched", "path": "/verif/engine/xsched", "serves_properties": [p for p in props if CHECKS.get(p, (0,0,0,0,""))[4] == "xsched"],
             "kind_free_text": "controlled scheduler + stateless DFS over goroutine interleavings of overlay-instrumented sources, vector-clock happens-before race oracle"},
        ],
        "checks": checks,
        "not_applicable": na,
        "notes": "All checks rebuild the harness against /repo's working tree on every invocation (go build with a replace directive). VERIF_REPO=<dir> points a check at a scratch worktree instead.",
    }
    json.dump(m, open(os.path.join(ROOT, "MANIFEST.json"), "w"), indent=1)
    print("wrote MANIFEST.json: %d checks, %d not_applicable" % (len(checks), len(na)))

NOT_APPLICABLE = {}

if __name__ == "__main__":
    main()
