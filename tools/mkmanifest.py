#!/usr/bin/env python3
"""Regenerates /verif/MANIFEST.json from the table below (one source of truth)."""
import json, os, sys

ROOT = os.path.dirname(os.path.dirname(os.path.abspath(__file__)))

# id -> (category, technique, level text, level note, engine, design ref)
CHECKS = {
 "C01": ("exploration", "complete enumeration of the finite code space against a float64 reference EOTF (bounded-exhaustive input exploration of the real code)",
         "Every 8-bit and 16-bit code of every space through every public decode entry point is executed on the real code, twice (second pass after all spaces have built their lazy tables), and compared with the published EOTF evaluated in float64; the domain is finite and walked completely in both tiers, so the result is a coverage statement over the whole input space of the property.",
         "Trusts the float64 math library and the transcription of the three published curves in refs/color.go.", "benum", "5/C01"),
 "C02": ("exploration", "ordered walk over all float32 bit patterns per encoder with a run-endpoint interval oracle (bounded-exhaustive input exploration), both lazy-table first-use orders in separate processes",
         "Thorough executes all 2^32 float32 patterns through each of the 6 curve encoders and 3 quantisers in increasing numeric order (monotonicity on every adjacent pair, clip law on every value, accuracy interval at both ends of every run of equal codes); quick does the same for every float32 in [0,1] and a boundary alphabet outside. Colour-type routes of all four spaces are checked on every table-bucket boundary.",
         "Reference OETFs in float64; the accuracy interval is the one the property states (half a code, half a table step) widened by 1% and by float32 rounding slack eps = M*3e-7+1e-4.", "benum", "5/C02"),
 "C03": ("exploration", "probing + bounded-exhaustive lattice enumeration (uniform and geometric) against a float64 derivation from the declared chromaticities",
         "All 18 coefficients per space are recovered by probing and compared with an independent derivation (Cramer's rule / Gauss-Jordan); additivity and both round trips are checked on every point of a uniform lattice and of a geometric lattice that reaches narrow bands next to 0 and 1, in and out of range.",
         "Between lattice points the claim rests on the additivity check on the lattice; published chromaticities are transcribed by hand in refs/color.go.", "benum", "5/C03"),
 "C04": ("exploration", "complete enumeration of all 2^24 RGB x 16 ordered space pairs (thorough) / dense lattice (quick) through the documented pipeline against a float64 colorimetric reference; each pair also as the first conversions of a fresh process",
         "Every 8-bit RGB value at alpha 255 for each of the 16 ordered pairs, plus an alpha sweep, is pushed through the README pipeline on the real code and compared per channel with the interval allowed by the encoder law around the float64 reference value.",
         "Reference = standards' curves + matrices derived from declared chromaticities + linear Bradford; tolerance = C02's encoder law plus delta for the float32 pipeline.", "benum", "5/C04"),
 "C10": ("exploration", "complete enumeration of the configuration product (source type x destination type x bounds shape x parallelism x transform x in-place) with a whole-backing-array oracle; each transform also as the first library call of a fresh process; in-place runs also on neighbour-dependent pixel data",
         "Every configuration of the stated finite product is executed on the real code and every byte of the destination parent's backing array is compared with the per-pixel definition computed through the standard library's Set; identical for every parallelism and for in-place use by construction of the oracle.",
         "Trusts image/draw's Set/colour-model conversion as the definition of 'the destination colour model's conversion'.", "benum", "5/C10"),
 "C12": ("exploration", "bounded-exhaustive enumeration of white-point pairs/triples on a chromaticity lattice plus near-neighbour pairs and white luminances on either side against a float64 Bradford reference",
         "All ordered pairs of a 32x32 (quick) / 64x64 (thorough) chromaticity lattice and the CIE illuminants, near-neighbour pairs, all triples over a 79-point set, both constructors, and Apply on uniform+geometric XYZ lattices are executed and compared with an independent Bradford implementation and the algebraic laws.",
         "Complete over the stated lattices only; tolerance for the exact-chromaticity comparison is derived per pair from the sensitivity of the reference to float32 input rounding.", "benum", "5/C12"),
 "C13": ("exploration", "bounded-exhaustive lattice enumeration (uniform + geometric + every float32 in the junction window) against the float64 CIE 1976 definition",
         "XYZ lattices x 8 whites, every float32 whose ratio lies within 1e-6 of the junction on each axis, a 2^20-step Y ramp, a Lab lattice and multiples of the white are executed on the real code and compared with the CIE definition, its inverse, monotonicity, continuity and round-trip bounds.",
         "Complete over the stated lattices only; 1e-3 bound widened by one float32 ulp of the result.", "benum", "5/C13"),
 "C14": ("exploration", "complete enumeration of all 16-bit (channel, alpha) pairs with channel <= alpha per curve (thorough), all alphas x boundary channels (quick), all 8-bit pairs, float32 alpha alphabet; image functions into fresh and pre-filled destinations",
         "Thorough walks all 2.1e9 premultiplied pairs per space through LineariseColor; both tiers walk all 65,536 alphas through every constructor/converter and all 65,536 8-bit (channel, alpha) pairs; expected alpha is computed with math/big.",
         "Zero-colour clause applied to premultiplied and generic constructors only (see assumptions).", "benum", "5/C14"),
 "C15": ("exploration", "complete enumeration of helper x image type x bounds x sub-image x content pattern x parallelism, differential against image/draw",
         "Every configuration of the stated finite product is executed and compared byte-for-byte with draw.Draw(Src); thorough adds an image holding all 2^24 YCbCr triples; both tiers include all 8-bit (channel, alpha) pairs.",
         "Trusts image/draw as the specification, as the property states.", "benum", "5/C15"),
 "C20": ("exploration", "bounded-exhaustive enumeration of primaries triangles x whites on a chromaticity lattice and of 3x3 matrices over dyadic and non-dyadic alphabets against Cramer / Gauss-Jordan references; every sequence of up to 3 requests (both directions / forward only / inverse only)",
         "All lattice triangles with area >= 0.01 x all interior lattice whites, 21 published spaces in all orders, every matrix over the entry alphabets (Inverse, MulM both ways x 14 partners, MulV, Transpose) and every repeated/zero-column singular matrix are executed on the real code.",
         "Complete over the stated alphabets only; tolerance 4e-7*(1+cond) for the package's float32 xyY->XYZ step.", "benum", "5/C20"),
}


CHECKS.update({
 "C05": ("exploration", "bounded-exhaustive enumeration of header fields and chunk/segment grammars built from typed descriptions, cross-validated by the standard decoders",
         "Every header field value of the stated sets (complete 14/16-bit fields, walking bits + byte lanes + all values < 2^16 for 31-bit fields in quick; all values < 2^24 plus 2^17 around every power of two for PNG, < 2^20 plus neighbourhoods for VP8X, every value of one VP8L field x 48 of the other in thorough; thorough also runs the quick tier built for GOARCH=386), every legal PNG type/depth pair, all chunk/segment sequences up to depth 3 and next-chunk headers at every alignment across the read-buffer boundaries are loaded through the specific loader and autometa and compared with the description; DecodeConfig of image/png, image/jpeg, x/image/webp confirms the generator.",
         "Well-formedness is defined by the generator and confirmed by the standard decoders on the grammar and quick field sets; files the decoder rejects as unsupported are compared with the description only.", "benum", "5/C05"),
 "C06": ("model_checking", "explicit enumeration of all JPEG segment sequences up to a depth over a 21-symbol alphabet, each executed on the real loader and compared with a reference state machine; bounded-exhaustive sizes/orders/damage for PNG, JPEG, WebP",
         "The JPEG ICC reassembly is treated as a state machine: every sequence of <= 5 (quick) / 6 (thorough) segments is executed on jpegmeta.Load and compared step-free with a reference model of chunk bookkeeping (states reached and transitions are reported); payload sizes across every buffer boundary, all chunk orders up to 5 chunks with foreign segments interleaved, 255 chunks, MiB payloads, all name lengths, deflate levels, and every single-byte substitution/truncation of three compressed streams are enumerated.",
         "Reference model in gen/containers.go (JPEGModel); duplicates and damage located after the earliest stopping point are left unpinned as the property does not pin them.", "benum", "5/C06"),
 "C07": ("fault_enumeration", "exhaustive enumeration of end positions x endings (EOF, data+EOF, I/O error, data+error) x delivery x loaders x drain styles; source objects of other dynamic types; deviation-bounded DFS over reader answers incl. errors (thorough)",
         "For every seed every truncation point and every failure position is a separate execution of the real loader followed by draining the returned stream; the bytes and the terminal condition are compared with what the source delivered.",
         "Seeds: one per format variant / parser error branch plus the repository images (every position up to 8 KiB).", "envx", "5/C07"),
 "C08": ("model_checking", "stateless depth-first exploration of io.Reader answer sequences (short reads, data+EOF) with a deviation bound, every trace executed on the real loaders / ICC reader and compared with the all-at-once outcome; the explorer first has to pass a self-test on toy consumers of known sensitivity",
         "Each Read call of the source is a choice point; all answer sequences with <= 2 (quick) / 3 (thorough) deviations from FULL plus 16 uniform schedules are executed on fresh loaders; determinism of the harness is asserted by replaying the default schedule twice and by failing hard on replay divergence.",
         "Answer alphabet {FULL, FULL+EOF, SHORT(1,2,3,n/2,n-1)}; (0,nil) reads not generated.", "envx", "5/C08"),
 "C09": ("exploration", "deviation-bounded exhaustive mutation (every 32/16-bit window x boundary values, every single-byte substitution, every truncation, pairs of annotated fields) executed in resource-limited worker processes with allocation, CPU-time and liveness oracles",
         "Every single-field deviation from each seed (no field annotation needed: every window at every offset is treated as a field), every byte substitution and truncation, plus crafted legal amplifying shapes, is run through all entry points; a panic reaching the harness, heap allocation beyond 1 MiB + 8192 x input, CPU beyond 2 s + 50 us x input, a dead or stalled worker are violations.",
         "Budgets are fixed linear functions chosen far above correct behaviour; fuzzing clauses of the quantifier are not used (sampling).", "benum", "5/C09"),
 "C11": ("model_checking", "controlled scheduler over overlay-instrumented sources: stateless depth-first search over goroutine interleavings with iterative preemption bounding and happens-before state caching (all interleavings for the 2-goroutine first-use scenarios and wherever a pass is never limited by the bound), vector-clock happens-before race detection and per-call sequential-value oracle on every execution; sync.Pool modelled as LIFO reuse; the explorer first has to give the known verdict on 23 litmus programs with and without state caching; free-running -race cross-check (incl. 16 and 64 goroutines at first use, GOMAXPROCS 16/4/1)",
         "The real code, instrumented at check time (sync operations, go statements, package-level variables written outside init, captured variables, pixel accesses), is executed under a scheduler that enumerates schedules; every execution is checked for happens-before races per the Go memory model and for value equality with the sequential result; fresh package state per execution makes every execution a 'very first use'.",
         "SC interleavings only (weak memory via DRF-SC); <= 4 scenario goroutines plus up to 11 library workers; state caching assumes goroutines communicate only through hooked operations (the same assumption the race oracle makes) and merges states on a 128-bit hash; accesses the rewriter cannot see are covered by the supplementary go build -race pass of the same scenarios.", "xsched", "5/C11"),
 "C16": ("exploration", "bounded-exhaustive enumeration of header bit patterns (walking ones/zeros over all 1,024 bits on five backgrounds, every byte lane, all version byte pairs, date components, flag combinations) against an independent decoder written from the ICC.1 field table",
         "Each header bit is shown to feed exactly the field the specification assigns it to on the backgrounds tried; all 65,536 version byte pairs are rendered; every single-bit and single-byte signature change must be rejected.",
         "Independent decoder in refs/icc.go; CreatedAt compared only for valid calendar instants.", "benum", "5/C16"),
 "C17": ("exploration", "bounded-exhaustive enumeration of a profile layout grammar (tag counts, table/data orders, padding, sharing; v2 lengths/contents; mluc record counts, orders, placements, languages, alphabets) with a set-membership oracle",
         "Every layout of the grammar up to the stated sizes is serialised by an independent generator and read back through ReadProfile/Description; where the specification leaves a choice the oracle is set membership and Description is called repeatedly because the implementation chooses through map iteration.",
         "Known finding: empty 'en' string falls back to another language (listed in known_findings.txt).", "benum", "5/C17"),
 "C18": ("model_checking", "counting source with a virtual pixel payload; uniform schedules and deviation-bounded DFS over reader answers; truncation-at-need differential",
         "For every generated file (ICC absent / before / after / between > 64 KiB of ancillary data, every chunk order) and payload tail up to 64 MiB (1 GiB thorough) the bytes pulled from the source at the moment Load returns are measured under every explored schedule and the file cut after its last needed structure must give the same result.",
         "need(file) comes from the generator; for repository images from bisection on the prefix length.", "envx", "5/C18"),
 "C19": ("exploration", "differential enumeration: autometa against the first succeeding specific loader over generated grammars, every truncation and every single-byte substitution of the seeds, polyglots",
         "Every input of the corpora is loaded by all three specific loaders and by autometa (all at once and one byte per call); metadata, ICC outcome, failure and stream replay are compared.",
         "The specific loaders are the specification, as the property states.", "benum", "5/C19"),
})

PENDING = "check not built yet in this revision (work in progress; see DESIGN.md section 5 for the plan)"

def main():
    props = [json.loads(l)["id"] for l in open(os.path.join(ROOT, "properties.jsonl"))]
    checks = []
    for pid in props:
        if pid not in CHECKS:
            continue
        cat, tech, text, note, engine, ref = CHECKS[pid]
        checks.append({
            "property_id": pid,
            "quick_cmd": "./check %s quick" % pid,
            "thorough_cmd": "./check %s thorough" % pid,
            "evidence_file": "/verif/evidence/%s.json" % pid,
            "replay_cmd_template": "./check %s --replay {path}" % pid,
            "engine": engine,
            "level_claimed": {"category": cat, "text": text, "design_ref": "DESIGN.md section " + ref},
            "level_note": note,
            "technique": tech,
        })
    na = [{"property_id": p, "reason": NOT_APPLICABLE.get(p, PENDING)} for p in props if p not in CHECKS]
    m = {
        "version": 1,
        "setup_cmd": "./setup.sh",
        "hooks": {
            "guard": "verif",
            "enable": "no hook is committed to /repo: engine A instruments a copy of the current tree at check time (cmd/vinstr) and builds it with `go build -tags verif -overlay <generated>.json`; all other engines use the public API",
            "baseline_off_cmd": "cd /repo && go test -vet=off -count=1 ./...",
            "source_commits": [],
            "add_only": True,
        },
        "engines": [
            {"name": "benum", "path": "/verif/props", "serves_properties": [p for p in props if CHECKS.get(p, (0,0,0,0,""))[4] == "benum"],
             "kind_free_text": "sharded bounded-exhaustive enumeration of inputs/configurations on the real code against independent reference models"},
            {"name": "envx", "path": "/verif/engine/envx", "serves_properties": [p for p in props if CHECKS.get(p, (0,0,0,0,""))[4] == "envx"],
             "kind_free_text": "deviation-bounded depth-first exploration of io.Reader answers (short reads, data+EOF, errors) driving the real loaders"},
            {"name": "xsched", "path": "/verif/engine/xsched", "serves_properties": [p for p in props if CHECKS.get(p, (0,0,0,0,""))[4] == "xsched"],
             "kind_free_text": "controlled scheduler + stateless DFS over goroutine interleavings of overlay-instrumented sources, vector-clock happens-before race oracle"},
        ],
        "checks": checks,
        "not_applicable": na,
        "notes": "All checks rebuild the harness against /repo's working tree on every invocation (go build with a replace directive). VERIF_REPO=<dir> points a check at a scratch worktree instead.",
    }
    json.dump(m, open(os.path.join(ROOT, "MANIFEST.json"), "w"), indent=1)
    print("wrote MANIFEST.json: %d checks, %d not_applicable" % (len(checks), len(na)))

NOT_APPLICABLE = {}

if __name__ == "__main__":
    main()
