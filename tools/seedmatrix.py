#!/usr/bin/env python3
"""Run every seeded change (and reverse-fix mutant) against the check of its property.

usage: seedmatrix.py [-j N] [pattern ...]     patterns match directory names under seeded/ (default: all)

Writes seeded/RESULTS.json: {name: {"property":..., "detected": bool, "exit": int, "wall_s": .., "kinds": {...}}}
"""
import concurrent.futures, json, os, re, subprocess, sys, time

ROOT = "/verif"

def one(name, patch, prop):
    t = time.time()
    p = subprocess.run([sys.executable, os.path.join(ROOT, "tools/seedtest.py"), patch, prop], capture_output=True, text=True)
    out = p.stdout
    det = "DETECTED" in out
    kinds = {}
    m = re.search(r"violation keys by kind: (\{.*\})", out)
    if m:
        try:
            kinds = eval(m.group(1))
        except Exception:
            pass
    first = [l.strip() for l in out.splitlines() if l.strip().startswith("key=")][:1]
    return name, {"property": prop, "detected": det, "wall_s": round(time.time() - t, 1), "kinds": kinds, "first": first[0][:300] if first else "", "raw_tail": "" if det else out[-400:]}

def main():
    args = sys.argv[1:]
    j = 4
    if args[:1] == ["-j"]:
        j = int(args[1]); args = args[2:]
    jobs = []
    for d in sorted(os.listdir(os.path.join(ROOT, "seeded"))):
        full = os.path.join(ROOT, "seeded", d)
        if not os.path.isdir(full):
            continue
        if args and not any(re.search(a, d) for a in args):
            continue
        prop = json.load(open(os.path.join(full, "meta.json")))["property"]
        jobs.append((d, os.path.join(full, "patch.diff"), prop))
    res_path = os.path.join(ROOT, "seeded", "RESULTS.json")
    res = json.load(open(res_path)) if os.path.exists(res_path) else {}
    with concurrent.futures.ThreadPoolExecutor(max_workers=j) as ex:
        for name, r in ex.map(lambda a: one(*a), jobs):
            old = res.get(name, {})
            if not r["detected"]:
                # keep the hand-written account of which other check decides this change
                for k in ("detected_by_other_check", "note"):
                    if k in old:
                        r[k] = old[k]
            res[name] = r
            print("%-12s %-4s %-8s %6.1fs %s %s" % (name, r["property"], "DETECTED" if r["detected"] else "MISSED", r["wall_s"], r["kinds"], r["first"][:140]), flush=True)
            json.dump(res, open(res_path, "w"), indent=1, sort_keys=True)

if __name__ == "__main__":
    main()
