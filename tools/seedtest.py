#!/usr/bin/env python3
"""Run checks against a seeded change without touching /repo.

usage: seedtest.py <patch.diff> <check-id>[,<check-id>...] [tier]

Creates a scratch worktree of /repo's HEAD under /tmp, applies the patch,
runs ./check <id> <tier> with VERIF_REPO pointing at it (evidence and replays
go to a scratch dir), prints one line per check, removes the worktree.
Exit status 0 if every listed check reported a violation (i.e. detected).
"""
import os, subprocess, sys, tempfile, shutil, time

def main():
    patch = os.path.abspath(sys.argv[1])
    ids = sys.argv[2].split(",")
    tier = sys.argv[3] if len(sys.argv) > 3 else "quick"
    wt = tempfile.mkdtemp(prefix="mt-", dir="/tmp")
    os.rmdir(wt)
    scratch = tempfile.mkdtemp(prefix="mtev-", dir="/tmp")
    ok = True
    try:
        subprocess.run(["git", "-C", "/repo", "worktree", "add", "--detach", wt, "HEAD"], check=True, capture_output=True)
        ap = subprocess.run(["git", "-C", wt, "apply", patch], capture_output=True, text=True)
        if ap.returncode != 0:
            print("PATCH DOES NOT APPLY:", ap.stderr.strip())
            return 2
        for cid in ids:
            env = dict(os.environ, VERIF_REPO=wt, VERIF_EVIDENCE_DIR=scratch, VERIF_REPLAY_DIR=scratch)
            t = time.time()
            p = subprocess.run(["/verif/check", cid, tier], env=env, capture_output=True, text=True)
            out = p.stdout + p.stderr
            vio = [l for l in out.splitlines() if l.startswith("VIOLATION") or l.startswith("  key=")]
            print("%s %s exit=%d wall=%.1fs %s" % (os.path.basename(os.path.dirname(patch)) + "/" + os.path.basename(patch), cid, p.returncode, time.time() - t,
                                                   "DETECTED" if p.returncode == 1 and vio else ("MISSED" if p.returncode == 0 else "ERROR")))
            keys = sorted(set(l.split()[0] for l in vio if l.startswith("  key=")))
            kinds = {}
            for k in keys:
                kk = k[len("key="):].split("/")[0]
                kinds[kk] = kinds.get(kk, 0) + 1
            print("    violation keys by kind:", kinds)
            for l in vio[:6]:
                print("    " + l[:300])
            if p.returncode not in (0, 1):
                print(out[-1500:])
            if not (p.returncode == 1 and vio):
                ok = False
    finally:
        subprocess.run(["git", "-C", "/repo", "worktree", "remove", "--force", wt], capture_output=True)
        shutil.rmtree(scratch, ignore_errors=True)
        tag = subprocess.run("printf '%s' " + wt + " | cksum | cut -d' ' -f1", shell=True, capture_output=True, text=True).stdout.strip()
        shutil.rmtree("/verif/.work/alt-" + tag, ignore_errors=True)
    return 0 if ok else 1

if __name__ == "__main__":
    sys.exit(main())
