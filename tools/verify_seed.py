#!/usr/bin/env python3
"""Independently confirm a sub-agent's seeded change and file it under /verif/seeded/.

usage: verify_seed.py <out-dir> <X>         e.g. verify_seed.py /tmp/seed/out-C05 A

Checks, in a scratch worktree of /repo HEAD (removed afterwards):
  1. the patch applies, the library builds, the full existing test suite passes with it;
  2. the demonstration fails with the patch and passes without it.
Writes /verif/seeded/<prop>-<X>/{patch.diff, demo_test.go, meta.json} when all hold.
"""
import json, os, shutil, subprocess, sys, tempfile

ENV = dict(os.environ, GOFLAGS="-mod=mod", GOPROXY="off", GOSUMDB="off", GOTOOLCHAIN="local")

def run(cmd, cwd, timeout=1200):
    p = subprocess.run(cmd, cwd=cwd, env=ENV, shell=True, capture_output=True, text=True, timeout=timeout)
    return p.returncode, (p.stdout + p.stderr)

def main():
    out, X = sys.argv[1], sys.argv[2]
    tag = sys.argv[3] if len(sys.argv) > 3 else ""
    meta = json.load(open(os.path.join(out, X + ".meta.json")))
    prop = meta["property"]
    patch = os.path.join(out, X + ".patch.diff")
    demo = os.path.join(out, X + "_demo_test.go")
    wt = tempfile.mkdtemp(prefix="vs-", dir="/tmp"); os.rmdir(wt)
    res = {"property": prop, "variant": X}
    try:
        subprocess.run(["git", "-C", "/repo", "worktree", "add", "--detach", wt, "HEAD"], check=True, capture_output=True)
        rc, o = run("git apply " + patch, wt)
        res["applies"] = rc == 0
        if rc != 0:
            print(json.dumps(res), o[-500:]); return 1
        rc, o = run("go build ./...", wt); res["builds"] = rc == 0
        rc, o = run("go test -vet=off -count=1 ./...", wt); res["suite_passes_with_change"] = rc == 0
        if rc != 0:
            res["suite_output"] = o[-800:]
        ddir = os.path.join(wt, meta["demo_dir"])
        dst = os.path.join(ddir, "zz_seed_demo_test.go")
        shutil.copy(demo, dst)
        dcmd = meta["demo_cmd"]
        rc, o = run(dcmd, wt); res["demo_fails_with_change"] = rc != 0
        res["demo_output_with_change"] = o[-600:]
        os.remove(dst)
        run("git checkout -- . && git clean -fdq", wt)
        shutil.copy(demo, dst)
        rc, o = run(dcmd, wt); res["demo_passes_without_change"] = rc == 0
        if rc != 0:
            res["demo_output_clean"] = o[-600:]
        os.remove(dst)
    finally:
        subprocess.run(["git", "-C", "/repo", "worktree", "remove", "--force", wt], capture_output=True)
    ok = all(res.get(k) for k in ["applies", "builds", "suite_passes_with_change", "demo_fails_with_change", "demo_passes_without_change"])
    res["confirmed"] = ok
    if ok:
        d = os.path.join("/verif/seeded", "%s-%s%s" % (prop, tag, X))
        os.makedirs(d, exist_ok=True)
        shutil.copy(patch, os.path.join(d, "patch.diff"))
        shutil.copy(demo, os.path.join(d, "demo_test.go"))
        m = {"property": prop, "summary": meta.get("summary"), "needs": meta.get("needs"), "demo_dir": meta.get("demo_dir"),
             "demo_cmd": meta.get("demo_cmd"), "files_changed": meta.get("files_changed"),
             "base_commit": subprocess.run(["git", "-C", "/repo", "rev-parse", "HEAD"], capture_output=True, text=True).stdout.strip(),
             "confirmed_by": "tools/verify_seed.py: patch applies, go build ok, full suite passes with change, demo fails with change, demo passes without",
             "demo_failure_excerpt": res["demo_output_with_change"][-300:]}
        json.dump(m, open(os.path.join(d, "meta.json"), "w"), indent=1)
    print(json.dumps({k: v for k, v in res.items() if not k.startswith("demo_output")}))
    return 0 if ok else 1

if __name__ == "__main__":
    sys.exit(main())
